# REGRESSION r1: re-assigning the very same (uncomparable) object to a parameter of a
# sub-object no longer runs the parent's method depending on it through 'sub.data'.
#
# What differs
#   sub.data holds a mutable value of a type param's Comparator does not know (think
#   DataFrame, ndarray, any custom object). The common idiom to announce an in-place
#   modification is to assign the object to the parameter again:
#       t.sub.data.rows.append(1); t.sub.data = t.sub.data
#   ORIGINAL: the event counts as 'changed' (objects of unknown type never compare equal),
#   so every watcher of sub.data runs: the user's param.watch callback, Sub's own
#   @depends('data', watch=True) method AND the parent's @depends('sub.data', watch=True).
#   REPAIRED: the first two still run, the parent's method is silently skipped -> the
#   parent keeps showing stale state. (_skip_event: "e.old is e.new ... nothing to
#   compare, and nothing was attached: continue" also fires for the *leaf* parameter of a
#   path, where subpaths is None because the parameter is the dependency itself.)
#
# Why the original is right
#   A dependency on 'sub.data' is documented to behave like a watcher on that parameter
#   of the sub-object; the watcher machinery itself (Parameters._changed) decided this
#   assignment is a change and delivers it to everybody else watching sub.data. The same
#   method declared on Sub itself ('data') or watched with sub.param.watch still runs on
#   the repaired tree, so only the path-dependency is inconsistent.
#
# Introduced by: 4a0bd4c ("the very same object re-assigned attaches nothing"), the rule
#   was meant for intermediate slots of a path and also catches the final parameter.
import sys
import param


class Payload:
    """A mutable value of a type param cannot compare (like a DataFrame or an array)."""
    def __init__(self):
        self.rows = []


class Sub(param.Parameterized):
    data = param.Parameter()
    own_calls = param.List([])

    @param.depends('data', watch=True)
    def own(self):
        self.own_calls.append(len(self.data.rows))


class Top(param.Parameterized):
    sub = param.ClassSelector(class_=Sub)
    calls = param.List([])

    @param.depends('sub.data', watch=True)
    def m(self):
        self.calls.append(len(self.sub.data.rows))


t = Top(sub=Sub(data=Payload()))
user = []
t.sub.param.watch(lambda e: user.append(e.type), 'data')

t.sub.data.rows.append(1)
t.sub.data = t.sub.data       # announce the in-place modification

print('param from', param.__file__)
print('parent method calls:', t.calls, '| own method:', t.sub.own_calls, '| user watcher:', user)
ok = (t.calls == [1] and t.sub.own_calls == [1] and user == ['changed'])

# same inside a batch on the sub-object
t.calls.clear()
with param.parameterized.batch_call_watchers(t.sub):
    t.sub.data.rows.append(2)
    t.sub.data = t.sub.data
print('batched: parent method calls:', t.calls)
ok = ok and t.calls == [2]

sys.exit(0 if ok else 1)
