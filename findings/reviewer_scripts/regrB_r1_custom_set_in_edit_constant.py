# CONFIDENCE: moderate (compatibility break that is inherent to the way the
# repair was designed - read the note at the end before counting it).
#
# What differs
# ------------
# A Parameter subclass that overrides __set__ and does the documented
# "constant" check itself (`if self.constant: raise TypeError`) can no longer
# be edited inside `with param.edit_constant(obj):`.
#   ORIGINAL: edit_constant(obj) switches the `constant` flag of the Parameter
#             objects off, so the custom __set__ (whose `self` is the
#             class-level Parameter object, as for every descriptor that is
#             not wrapped in the private `instance_descriptor`) sees
#             constant=False and the assignment goes through.
#   REPAIRED: edit_constant(obj) only sets a private marker on the instance
#             (`obj._param__private.unlocked`); the class-level Parameter keeps
#             constant=True for the whole block, so the custom __set__ raises
#             "TypeError: constant" inside the block.  The same is seen by any
#             code in the block that asks the class-level object, e.g.
#             `type(obj).param.c.constant` or
#             `obj.param.objects('existing')['c'].constant` (the idiom used to
#             avoid creating per-instance Parameter objects).
#
# Why the original behaviour is the right one
# -------------------------------------------
# The user guide says a constant's value "is constant except in the context
# of `with param.edit_constant(obj)`", and the docstring of edit_constant says
# it "temporarily set[s] parameters on Parameterized object to constant=False".
# `Parameter.constant` is the only public way for a Parameter subclass to
# find out whether it may be assigned; with the repair the only way is the
# private `_param__private.unlocked/unlocked_params`.
#
# Commit: a919dde "fix: edit_constant only unlocks the object it is given"
# (refined by e17048d, 1fbc6d0, 63d4707, 2b0066e).
#
# Note: leaving the class-level flag on is what makes the repair stop
# unlocking *other* instances (which was a genuine defect), so this is the
# price of that design rather than a slip; it is reported because it is an
# exception that did not happen before in subclass code using only the
# public `constant` attribute.
import sys
import param
from param.parameterized import edit_constant

STORE = {}


class Stored(param.Parameter):
    """Keeps its values in an external store; does the constant check itself."""

    def __get__(self, obj, objtype):
        if obj is None:
            return self.default
        return STORE.get((id(obj), self.name), self.default)

    def __set__(self, obj, val):
        if obj is None:
            self.default = val
            return
        # (values given to the constructor are allowed, as for any constant)
        if self.constant and obj._param__private.initialized:
            raise TypeError("Constant parameter %r cannot be modified" % self.name)
        STORE[(id(obj), self.name)] = val


class A(param.Parameterized):
    c = Stored(default=1, constant=True)


a = A()
# outside the block it is locked on both trees
try:
    a.c = 5
    print("FAIL: constant editable outside edit_constant")
    sys.exit(2)
except TypeError:
    pass

try:
    with edit_constant(a):
        a.c = 2
except TypeError as e:
    print("REGRESSION: constant not editable inside edit_constant(obj):", e)
    sys.exit(1)

assert a.c == 2, a.c
# locked again afterwards
try:
    a.c = 6
    print("FAIL: constant editable after the block")
    sys.exit(2)
except TypeError:
    pass
print("ok")
sys.exit(0)
