# REGRESSION r2: param.trigger() of a sub-object's parameter inside a batch no longer runs
# the parent's method that depends on it through 'sub.items'.
#
# What differs
#   The documented idiom for announcing an in-place modification of a mutable value is
#   obj.param.trigger('items'). Done inside batch_call_watchers(sub) (or from a queued
#   watcher, or inside any code that holds events of `sub`):
#       with param.parameterized.batch_call_watchers(t.sub):
#           t.sub.items.append(2)
#           t.sub.param.trigger('items')
#   ORIGINAL: when the batch ends every watcher of sub.items runs, including the parent's
#   @param.depends('sub.items', watch=True) method (it runs once, and sees [.., 2]).
#   REPAIRED: the user's param.watch callback on sub.items still runs, the parent's
#   dependent method does not -> the parent is left stale. Unbatched trigger still works,
#   so the behaviour now depends on whether some caller happens to hold events.
#   (A triggered event delivered at the end of a batch has type 'changed' - the TRIGGER
#   flag is gone by then - and old is new; _skip_event's new rule "e.old is e.new and
#   e.type != 'triggered' -> nothing to compare, nothing attached: skip" drops it even for
#   the final parameter of the path, which is the dependency itself.)
#
# Why the original is right
#   trigger() exists precisely to force watchers to run without a value change, and a
#   watch=True dependency is a watcher; the same trigger outside a batch runs the method
#   on both trees, and every other watcher of the parameter runs in the batch as well.
#
# Introduced by: 4a0bd4c ("the very same object re-assigned attaches nothing").
# Same root cause as r1, different public idiom (a fix that consults the Comparator for
# the leaf would cure r1 but not this one: a list is equal to itself).
import sys
import param


class Sub(param.Parameterized):
    items = param.List([])
    k = param.Integer(0)


class Top(param.Parameterized):
    sub = param.ClassSelector(class_=Sub)
    calls = param.List([])

    @param.depends('sub.items', watch=True)
    def m(self):
        self.calls.append(list(self.sub.items))


t = Top(sub=Sub())
user = []
t.sub.param.watch(lambda e: user.append(list(e.new)), 'items')

# unbatched: fine on both trees
t.sub.items.append(1)
t.sub.param.trigger('items')
print('param from', param.__file__)
print('unbatched: parent method', t.calls, '| user watcher', user)
ok = t.calls == [[1]] and user == [[1]]
t.calls.clear(); user.clear()

# inside a batch on the sub-object
with param.parameterized.batch_call_watchers(t.sub):
    t.sub.k = 1
    t.sub.items.append(2)
    t.sub.param.trigger('items')
print('batched:   parent method', t.calls, '| user watcher', user)
ok = ok and t.calls == [[1, 2]] and user == [[1, 2]]

sys.exit(0 if ok else 1)
