"""TimeWorld — C19: time-dependent dynamic values are a pure function of time.

Clock seam: a run-private `param.Time` (time_type int or Fraction) installed as Dynamic.time_fn and as the
generators' time_fn; the scheduler jumps it forward, backward, to repeated times, to the cache sentinel and far away.
Real: param.Time, param.Dynamic (time-keyed cache, inspect/force), Parameters._state_push/_state_pop, numbergen.
Model: a table keyed by (generator spec, time) filled by *fresh* generators of the same spec, plus a 10-line model
of the Dynamic cache (needed for the deliberately impure counter generator) and of the clock's context stack.
"""
import json
from fractions import Fraction

from ..kernel import Outcome, register, weighted


def build_gen(spec, clock, counters):
    import numbergen as ng
    g = spec['g']
    common = dict(time_fn=clock, time_dependent=True)
    if g in ('UniformRandom', 'NormalRandom', 'UniformRandomInt', 'Choice', 'UniformRandomOffset', 'VonMisesRandom'):
        return getattr(ng, g)(name=spec['name'], seed=spec['seed'], **spec.get('args', {}), **common)
    if g in ('ScaledTime', 'SquareWave', 'ExponentialDecay', 'BoxCar'):
        return getattr(ng, g)(time_fn=clock, **spec.get('args', {}))
    if g == 'add':
        return build_gen(spec['a'], clock, counters) + build_gen(spec['b'], clock, counters)
    if g == 'mul':
        return build_gen(spec['a'], clock, counters) * spec['k']
    if g == 'neg':
        return -build_gen(spec['a'], clock, counters)
    if g == 'bounded':
        return ng.BoundedNumber(generator=build_gen(spec['a'], clock, counters), bounds=tuple(spec['bounds']))
    if g == 'flaky':
        calls = [0]
        fails = set(spec.get('fail', []))

        def flaky():
            calls[0] += 1
            if calls[0] in fails:
                raise RuntimeError('injected generator failure')
            return float(clock()) * 3
        return flaky
    if g == 'counter':
        box = [0]
        counters.append(box)

        def counter():
            box[0] += 1
            return box[0]
        return counter
    raise ValueError(g)


def gen_spec(rng, depth=0):
    k = weighted(rng, [('UniformRandom', 4), ('NormalRandom', 2), ('UniformRandomInt', 2), ('Choice', 2), ('UniformRandomOffset', 1),
                       ('ScaledTime', 2), ('SquareWave', 1.5), ('ExponentialDecay', 1), ('BoxCar', 1),
                       ('add', 1.5 if depth < 2 else 0), ('mul', 1 if depth < 2 else 0), ('neg', 1 if depth < 2 else 0),
                       ('bounded', 1 if depth < 2 else 0), ('counter', 1.2 if depth == 0 else 0), ('flaky', 1.2 if depth == 0 else 0)])
    name, seed = rng.choice(['n1', 'n2', 'n3']), rng.choice([0, 1, 7])
    if k == 'UniformRandom':
        return {'g': k, 'name': name, 'seed': seed, 'args': {'lbound': 0.0, 'ubound': rng.choice([1.0, 10.0])}}
    if k == 'NormalRandom':
        return {'g': k, 'name': name, 'seed': seed, 'args': {'mu': 0.0, 'sigma': rng.choice([1.0, 3.0])}}
    if k == 'UniformRandomInt':
        return {'g': k, 'name': name, 'seed': seed, 'args': {'lbound': 0, 'ubound': rng.choice([10, 1000])}}
    if k == 'Choice':
        return {'g': k, 'name': name, 'seed': seed, 'args': {'choices': [1, 2, 3, 5, 8, 13]}}
    if k == 'UniformRandomOffset':
        return {'g': k, 'name': name, 'seed': seed, 'args': {'mean': 1.0, 'range': 2.0}}
    if k == 'ScaledTime':
        return {'g': k, 'args': {'factor': rng.choice([1.0, 2.5])}}
    if k == 'SquareWave':
        return {'g': k, 'args': {'onset': 1.0, 'duration': 2.0, 'off_duration': rng.choice([1.0, 3.0])}}
    if k == 'ExponentialDecay':
        return {'g': k, 'args': {'starting_value': 2.0, 'time_constant': 5.0}}
    if k == 'BoxCar':
        return {'g': k, 'args': {'onset': 1.0, 'duration': 3.0}}
    if k == 'add':
        return {'g': 'add', 'a': gen_spec(rng, depth + 1), 'b': gen_spec(rng, depth + 1)}
    if k == 'mul':
        return {'g': 'mul', 'a': gen_spec(rng, depth + 1), 'k': rng.choice([2, 0.5])}
    if k == 'neg':
        return {'g': 'neg', 'a': gen_spec(rng, depth + 1)}
    if k == 'bounded':
        return {'g': 'bounded', 'a': gen_spec(rng, depth + 1), 'bounds': [0.2, 5.0]}
    if k == 'flaky':
        return {'g': 'flaky', 'fail': sorted(rng.sample(range(2, 9), rng.randint(1, 3)))}
    return {'g': 'counter'}


def pure(spec):
    if spec['g'] == 'counter':
        return False
    return all(pure(spec[k]) for k in ('a', 'b') if k in spec)


class TimeWorld:
    name = 'time'
    props = ('C19',)
    levels = {'C19': 'exploration'}
    chunk = 400
    budget = {'quick': dict(runs=24000, wall=180.0), 'thorough': dict(runs=1200000, wall=900.0)}
    time_unit = 'sum of |clock jumps| on the simulated param.Time clock (abstract time units)'
    state_measure = 'distinct (time, context depth, cache-hit?) triples at reads'
    components = {'real': ['param.Time (clock, context manager, iteration)', 'param.Dynamic/Number time-keyed cache, inspect_value, '
                           'force_new_dynamic_value', 'Parameters._state_push/_state_pop', 'numbergen generators and Hash-seeded random state'],
                  'stub': ['who moves the clock (the seeded scheduler)', 'one deliberately impure counter generator (to observe the cache)']}
    rules = {'C19': 'case = 1-3 instances whose Number parameters are driven by numbergen generators (names and seeds repeated across '
                    'instances) + history of clock jumps (forward, backward, repeated, huge, negative incl. the value -1), reads, double reads, '
                    'inspections, forced values, nested time contexts left normally or exceptionally with timestep/until changed inside, '
                    'iteration steps, state push/pop and generator swaps; every read is compared with a FRESH generator of the same spec at that '
                    'time; non-trivial = a time was revisited after visiting another one and >=2 instances or a context was involved; '
                    'distinct = distinct op-kind sequences.'}
    assumptions = {'C19': ['generators are given explicit name and seed (seed=None draws OS entropy by design)',
                           'param.random_seed is pinned per run', 'time values are ints or Fractions (exact types, as the docs recommend)']}

    def gen(self, rng, prop, tier, avoid):
        big = tier == 'thorough'
        frac = rng.random() < 0.35
        cfg = {'ttype': 'Fraction' if frac else 'int', 'n_inst': rng.choice([1, 2, 2, 3]), 'n_params': rng.choice([1, 2]),
               'install': rng.choice(['class', 'instance']), 'avoid': sorted(avoid), 'child': rng.random() < 0.3}
        pool = [gen_spec(rng) for _ in range(rng.randint(1, 3))]
        cfg['gens'] = [[rng.choice(pool) if rng.random() < 0.6 else gen_spec(rng) for _ in range(cfg['n_params'])]
                       for _ in range(cfg['n_inst'])]
        n_ops = min(70 if big else 35, 3 + int(rng.expovariate(1 / (18.0 if big else 10.0))))
        times = [-3, -2, -1, 0, 1, 2, 3, 4, 5, 10 ** 9, -1] if not frac else ['-3/2', '-1', '0', '1/2', '1', '3/2', '2', '7/3', '5', '-1']
        if 'time_minus_one' in avoid:
            times = [t for t in times if t not in (-1, '-1')]
        ops = []
        depth = 0
        for _ in range(n_ops):
            k = weighted(rng, [('jump', 6), ('adv', 3), ('read', 8), ('read2', 2), ('inspect', 2), ('force', 1), ('enter', 2 if depth < 3 else 0),
                               ('exit', 2.5 if depth else 0), ('step', 1), ('until', 1 if depth else 0.2), ('next', 1 if depth else 0.2),
                               ('push', 1.5), ('pop', 1.5), ('swap', 0.7), ('pp2', 1.0)])
            op = {'op': k}
            if k == 'jump':
                op['t'] = rng.choice(times)
            elif k == 'adv':
                d = rng.choice([1, 2, 3]) if not frac else rng.choice(['1/2', '1', '3/2'])
                op['d'] = d
                op['neg'] = rng.random() < 0.4
                if 'time_minus_one' in avoid:
                    k = op['op'] = 'read'
            if k in ('read', 'read2', 'inspect', 'force', 'swap'):
                op['i'] = rng.randrange(cfg['n_inst'])
                op['p'] = rng.randrange(cfg['n_params'])
            if k in ('push', 'pop', 'pp2'):
                op['i'] = rng.randrange(cfg['n_inst'])
            if k == 'pp2':
                op['t1'], op['t2'], op['t3'] = rng.sample([1, 2, 3, 4, 5, 6], 3)
            if k == 'swap':
                op['spec'] = rng.choice(pool) if rng.random() < 0.5 else gen_spec(rng)
            if k == 'enter':
                depth += 1
            if k == 'exit':
                depth -= 1
                op['exc'] = rng.choice([None, None, 'RuntimeError', 'StopIteration'])
            if k == 'step':
                op['v'] = rng.choice([1, 2, 5]) if not frac else rng.choice(['1/2', '2'])
            if k == 'until':
                op['v'] = rng.choice([3, 6, 20])
            ops.append(op)
        return {'cfg': cfg, 'ops': ops}

    def skeleton(self, case):
        return [op['op'] + (f":{op['t']}" if op['op'] == 'jump' and op['t'] in (-1, '-1') else '') for op in case['ops']]

    def simplify(self, case):
        cfg = case['cfg']
        for key, simple in (('n_inst', 1), ('n_params', 1), ('ttype', 'int'), ('install', 'class')):
            if cfg[key] != simple and not (key == 'ttype'):
                yield {**case, 'cfg': {**cfg, key: simple}}
        simple_spec = {'g': 'ScaledTime', 'args': {'factor': 1.0}}
        for i, row in enumerate(cfg['gens']):
            for j, sp in enumerate(row):
                for cand in ([sp[k] for k in ('a', 'b') if k in sp] + [simple_spec, {'g': 'counter'}]):
                    if cand != sp:
                        rows = [list(r) for r in cfg['gens']]
                        rows[i][j] = cand
                        yield {**case, 'cfg': {**cfg, 'gens': rows}}
        ops = case['ops']
        for i, op in enumerate(ops):
            if op['op'] == 'jump' and op['t'] not in (0, '0'):
                yield {**case, 'ops': ops[:i] + [{**op, 't': 0 if cfg['ttype'] == 'int' else '0'}] + ops[i + 1:]}
            if op.get('i'):
                yield {**case, 'ops': ops[:i] + [{**op, 'i': 0}] + ops[i + 1:]}
            if op.get('p'):
                yield {**case, 'ops': ops[:i] + [{**op, 'p': 0}] + ops[i + 1:]}
            if op.get('exc'):
                yield {**case, 'ops': ops[:i] + [{**op, 'exc': None}] + ops[i + 1:]}

    # ----------------------------------------------------------------------------------------------
    def run(self, case):
        import param
        out = Outcome()
        cfg = case['cfg']
        T = int if cfg['ttype'] == 'int' else Fraction
        saved = (param.Dynamic.time_dependent, param.Dynamic.time_fn)
        try:
            self._run(case, cfg, T, param, out)
        finally:
            param.Dynamic.time_dependent, param.Dynamic.time_fn = saved
        return out

    def _run(self, case, cfg, T, param, out):
        clock = param.Time(time_type=T)
        param.Dynamic.time_dependent = True
        if cfg['install'] == 'class':
            param.Dynamic.time_fn = clock
        counters = []
        names = ['x', 'y'][:cfg['n_params']]
        ns_ = {n: param.Number(default=0) for n in names}
        ns_['child'] = param.Parameter(default=None)
        H = type('H', (param.Parameterized,), ns_)
        child = bool(cfg.get('child')) and cfg['n_inst'] >= 2      # I0 holds I1 as a sub-object: I1's dynamic state is part of I0's
        insts = []
        # model of every (instance, parameter): spec, cache (value, time), pushed stack
        M = {}
        for i in range(cfg['n_inst']):
            o = H()
            if cfg['install'] == 'instance':
                o.param.set_dynamic_time_fn(clock)
            insts.append(o)
        if cfg['install'] == 'instance':
            param.Dynamic.time_fn = clock     # generators constructed with time_fn=clock need the global flag check to pass
        if child:
            insts[0].child = insts[1]

        def state_of(i):
            return [i, 1] if (child and i == 0) else [i]
        for i, o in enumerate(insts):
            for j, n in enumerate(names):
                spec = cfg['gens'][i % len(cfg['gens'])][j % len(cfg['gens'][0])]
                setattr(o, n, build_gen(spec, clock, counters))
                M[(i, n)] = {'spec': spec, 'val': None, 'time': None, 'stack': [], 'count': 0}
        table = {}
        fresh_cache = {}

        def viol(clause, detail, step):
            if not out.violations:
                out.violations.append((clause, step, detail))

        def expected_pure(spec, t):
            if spec['g'] == 'flaky':
                return float(t) * 3
            key = (json.dumps(spec, sort_keys=True), str(t))
            if key not in table:
                sk = key[0]
                if sk not in fresh_cache:
                    fresh_cache[sk] = build_gen(spec, clock, [])
                table[key] = fresh_cache[sk]()       # a fresh generator of the same spec, evaluated at the current time
            return table[key]

        # clock model
        cm = {'t': T(0), 'step': 1.0, 'until': 'forever', 'stack': [], 'exh': None}
        visited = []
        revisit = False
        ctx_used = False
        sim = 0
        states = []

        def same(a, b):
            return a == b or (a != a and b != b)

        def do_read(step, i, n, label):
            m = M[(i, n)]
            t = clock()
            try:
                v = getattr(insts[i], n)
            except RuntimeError:
                if m['spec']['g'] != 'flaky':
                    raise
                # the generator failed at this read: no value was produced for this time, the next read must produce it
                out.stats['fault.generator_raised_during_read'] += 1
                return None
            hit = (m['time'] is not None and m['time'] == t)
            if pure(m['spec']):
                exp = expected_pure(m['spec'], t)
                if not same(v, exp):
                    viol('C19.function_of_time', f"{label} I{i}.{n} at t={t} returned {v!r}; a fresh generator with the same name/seed/"
                         f"parameters gives {exp!r} (cache was {'hit' if hit else 'miss'}, last time {m['time']})", step)
            else:
                if hit:
                    exp = m['val']
                else:
                    m['count'] += 1
                    exp = m['count']
                if v != exp:
                    viol('C19.same_time_same_value', f"{label} I{i}.{n} (counter) at t={t} returned {v!r}, expected {exp!r} "
                         f"({'cached' if hit else 'new'} value)", step)
            m['val'], m['time'] = v, t
            states.append(f"{t}|{len(cm['stack'])}|{hit}")
            return v

        for step, op in enumerate(case['ops'], 1):
            if out.violations:
                break
            k = op['op']
            i = op.get('i', 0) % cfg['n_inst']
            n = names[op.get('p', 0) % len(names)]
            out.log.append(f"{step} {k} {json.dumps({a: b for a, b in op.items() if a != 'op'}, sort_keys=True)} t={clock()}")
            out.stats['op.' + k] += 1
            try:
                if k == 'jump':
                    t = T(op['t']) if not isinstance(op['t'], str) else T(Fraction(op['t']))
                    sim += abs(float(t - cm['t'])) if abs(t) < 10 ** 8 and abs(cm['t']) < 10 ** 8 else 0
                    if t in visited and visited and visited[-1] != t:
                        revisit = True
                    visited.append(t)
                    clock(t)
                    cm['t'] = t
                    if t == -1:
                        out.stats['fault.clock_at_cache_sentinel'] += 1
                    if abs(t) >= 10 ** 8:
                        out.stats['fault.huge_jump'] += 1
                elif k == 'adv':
                    d = T(op['d']) if not isinstance(op['d'], str) else T(Fraction(op['d']))
                    if op['neg']:
                        clock.__isub__(d)
                        cm['t'] = cm['t'] - d
                        out.stats['fault.clock_backward'] += 1
                    else:
                        clock.__iadd__(d)
                        cm['t'] = cm['t'] + d
                    sim += abs(float(d))
                    if cm['t'] in visited:
                        revisit = True
                    visited.append(cm['t'])
                elif k == 'read':
                    do_read(step, i, n, 'read')
                elif k == 'read2':
                    a = do_read(step, i, n, 'read')
                    b = do_read(step, i, n, 'second read')
                    if a is not None and b is not None and not same(a, b):
                        viol('C19.same_time_same_value', f"two reads of I{i}.{n} at t={clock()} returned {a!r} then {b!r}", step)
                elif k == 'inspect':
                    m = M[(i, n)]
                    v = insts[i].param.inspect_value(n)
                    if m['time'] is not None and not same(v, m['val']):
                        viol('C19.inspect_pure', f"inspect_value(I{i}.{n}) = {v!r}, last produced value was {m['val']!r}", step)
                    v2 = insts[i].param.inspect_value(n)
                    if not same(v, v2):
                        viol('C19.inspect_pure', f"two inspections of I{i}.{n} returned {v!r} then {v2!r}", step)
                elif k == 'force':
                    m = M[(i, n)]
                    t = clock()
                    try:
                        v = insts[i].param.force_new_dynamic_value(n)
                    except RuntimeError:
                        if m['spec']['g'] != 'flaky':
                            raise
                        out.stats['fault.generator_raised_during_read'] += 1
                        continue
                    if pure(m['spec']):
                        exp = expected_pure(m['spec'], t)
                        if not same(v, exp):
                            viol('C19.function_of_time', f"forced value of I{i}.{n} at t={t} is {v!r}, a fresh generator gives {exp!r}", step)
                    else:
                        m['count'] += 1
                        if v != m['count']:
                            viol('C19.same_time_same_value', f"forced counter value {v!r}, expected {m['count']}", step)
                    m['val'], m['time'] = v, t
                elif k == 'enter':
                    clock.__enter__()
                    cm['stack'].append((cm['t'], cm['step'], cm['until']))
                    ctx_used = True
                elif k == 'exit':
                    if cm['stack']:
                        exc = {'RuntimeError': RuntimeError, 'StopIteration': StopIteration, None: None}[op.get('exc')]
                        if exc is None:
                            clock.__exit__(None, None, None)
                        else:
                            clock.__exit__(exc, exc('injected'), None)
                            out.stats['fault.context_left_by_exception'] += 1
                        cm['t'], cm['step'], cm['until'] = cm['stack'].pop()
                        t = clock()
                        if t != cm['t'] or type(t) is not type(cm['t']):
                            viol('C19.ctx_restores', f"after leaving the time context the time is {t!r} ({type(t).__name__}), it was {cm['t']!r} on entry", step)
                        if clock.timestep != cm['step']:
                            viol('C19.ctx_restores', f"after leaving the time context timestep is {clock.timestep!r}, it was {cm['step']!r} on entry", step)
                        un = 'forever' if isinstance(clock.until, param.parameters.Infinity) else clock.until
                        if un != cm['until']:
                            viol('C19.ctx_restores', f"after leaving the time context until is {un!r}, it was {cm['until']!r} on entry", step)
                elif k == 'step':
                    v = op['v'] if not isinstance(op['v'], str) else Fraction(op['v'])
                    clock.timestep = v
                    cm['step'] = v
                elif k == 'until':
                    clock.until = op['v']
                    cm['until'] = op['v']
                elif k == 'next':
                    ts = T(cm['step'])
                    try:
                        got = next(clock)
                    except StopIteration:
                        got = 'stop'
                    if cm['exh'] is None:
                        cm['exh'] = False
                        exp = cm['t']
                    elif cm['until'] == 'forever' or cm['t'] + ts <= cm['until']:
                        cm['t'] = cm['t'] + ts
                        exp = cm['t']
                    else:
                        cm['exh'] = None
                        exp = 'stop'
                    if got != exp:
                        viol('C19.clock', f"next(clock) gave {got!r}, expected {exp!r}", step)
                    visited.append(cm['t'])
                elif k in ('push', 'pop', 'pp2') and child and i == 1:
                    pass        # the sub-object's state is pushed and popped through its holder only
                elif k == 'push':
                    insts[i].param._state_push()
                    for i2 in state_of(i):
                        for n2 in names:
                            m = M[(i2, n2)]
                            m['stack'].append((m['val'], m['time']))
                    if len(state_of(i)) > 1:
                        out.stats['probe.state_pushed_through_holder_of_subobject'] += 1
                elif k == 'pop':
                    if M[(i, names[0])]['stack']:
                        insts[i].param._state_pop()
                        for i2 in state_of(i):
                            for n2 in names:
                                m = M[(i2, n2)]
                                m['val'], m['time'] = m['stack'].pop()
                                v = insts[i2].param.inspect_value(n2)
                                if m['time'] is not None and not same(v, m['val']):
                                    viol('C19.push_pop', f"after state pop of I{i}, I{i2}.{n2} holds {v!r}, it held {m['val']!r} at push", step)
                        out.stats['probe.pop_restored_cache'] += 1
                elif k == 'pp2':
                    # read at t1, push, read at t2, push, read at t3, pop, pop, then read at t2 and t1 again
                    def at(tv):
                        clock(T(tv))
                        cm['t'] = T(tv)
                        visited.append(cm['t'])
                        for n2 in names:
                            do_read(step, i, n2, f"nested push/pop probe read at {tv} of")
                    at(op['t1'])
                    insts[i].param._state_push()
                    for i2 in state_of(i):
                        for n2 in names:
                            M[(i2, n2)]['stack'].append((M[(i2, n2)]['val'], M[(i2, n2)]['time']))
                    at(op['t2'])
                    insts[i].param._state_push()
                    for i2 in state_of(i):
                        for n2 in names:
                            M[(i2, n2)]['stack'].append((M[(i2, n2)]['val'], M[(i2, n2)]['time']))
                    at(op['t3'])
                    for _ in range(2):
                        insts[i].param._state_pop()
                        for i2 in state_of(i):
                            for n2 in names:
                                M[(i2, n2)]['val'], M[(i2, n2)]['time'] = M[(i2, n2)]['stack'].pop()
                    out.stats['probe.nested_push_pop'] += 1
                    at(op['t2'])
                    at(op['t1'])
                    revisit = True
                elif k == 'swap':
                    # a generator's pushed states live on the generator itself: only swap when nothing is pushed
                    if not M[(i, names[0])]['stack']:
                        setattr(insts[i], n, build_gen(op['spec'], clock, counters))
                        M[(i, n)] = {'spec': op['spec'], 'val': None, 'time': None, 'stack': [], 'count': 0}
            except Exception as e:      # noqa
                viol('C19.exception', f"{k} raised {type(e).__name__}: {str(e)[:150]}", step)
        out.sim_time = sim
        out.states = tuple(states)
        if revisit and (cfg['n_inst'] > 1 or ctx_used):
            out.sig = cfg['ttype'] + ':' + ','.join(op['op'] for op in case['ops'])
        if revisit:
            out.stats['probe.time_revisited'] += 1


register(TimeWorld())
