"""DependsWorld — C06 (depends(watch=True) runs exactly once per change of a dependency) and
C07 (sub-object dependencies follow the object currently attached).

Real: param.depends, ParameterizedMetaclass dependency tables, _params_depended_on/_spec_to_obj, Parameters._update_deps/
_watch_group/_resolve_dynamic_deps, _m_caller/_skip_event, function-form depends.
Model (no param import): C06 - dependency closure per active method definition along the Python MRO;
C07 - the value reached through the current attachment path of each dependency.
"""
from ..kernel import Outcome, register, weighted

PARAMS = ('a', 'b', 'c')


# ============================================================================================ C06

def gen_family(rng):
    shape = weighted(rng, [('single', 2), ('chain2', 3), ('chain3', 2), ('fork', 1.5), ('diamond', 2)])
    bases = {'single': [[]], 'chain2': [[], [0]], 'chain3': [[], [0], [1]], 'fork': [[], [0], [0]],
             'diamond': [[], [0], [0], [1, 2]]}[shape]
    classes = []
    mnames = ['m0', 'm1', 'm2'][:rng.randint(1, 3)]
    # b0: a method other methods may name as a dependency; defined in the root only, never overridden
    has_b0 = rng.random() < 0.5
    for ci, bs in enumerate(bases):
        methods = {}
        if ci == 0 and has_b0:
            methods['b0'] = {'dec': True, 'watch': rng.choice([False, False, True]), 'on_init': False,
                             'deps': sorted(rng.sample(PARAMS, rng.choice([0, 1, 1, 2, 2])))}      # depends() with nothing listed: on nothing
        for m in mnames:
            if ci == 0 or rng.random() < 0.45:
                if ci > 0 and rng.random() < 0.25:
                    methods[m] = {'dec': False}
                    continue
                pool = list(PARAMS) + ['a:bounds'] + (['b0'] if has_b0 else [])
                deps = sorted(set(rng.choice(pool) for _ in range(rng.choice([0, 1, 1, 1, 2, 2, 2, 3, 3, 3]))))
                methods[m] = {'dec': True, 'watch': weighted(rng, [(True, 6), ('queued', 1.5), (False, 1.5)]),
                              'on_init': rng.random() < 0.25, 'deps': deps}
        classes.append({'bases': bs, 'methods': methods, 'redeclare': (ci > 0 and rng.random() < 0.15)})
        # a method may itself assign parameter c (never one that depends on c, and not a queued one): a one-level cascade
        for m, d in methods.items():
            if (m != 'b0' and d.get('dec') and d.get('watch') is True and rng.random() < 0.3 and
                    ('c', 'value') not in closure(classes, ci, m)):
                d['sets'] = 'c'
    return classes


def mro_of(classes, ci):
    """C3 linearisation over the generated family (indices)."""
    def merge(seqs):
        res = []
        seqs = [list(s) for s in seqs if s]
        while seqs:
            for s in seqs:
                h = s[0]
                if not any(h in t[1:] for t in seqs):
                    break
            else:
                raise TypeError('inconsistent hierarchy')
            res.append(h)
            seqs = [[x for x in s if x != h] for s in seqs]
            seqs = [s for s in seqs if s]
        return res
    bs = classes[ci]['bases']
    return [ci] + merge([mro_of(classes, b) for b in bs] + [list(bs)])


def active_def(classes, ci, m):
    for k in mro_of(classes, ci):
        if m in classes[k]['methods']:
            return k, classes[k]['methods'][m]
    return None, None


def closure(classes, ci, m, seen=()):
    """Set of (param, what) the active definition of m in class ci depends on."""
    k, d = active_def(classes, ci, m)
    out = set()
    if d is None or not d.get('dec'):
        return out
    for spec in d['deps']:
        if spec in PARAMS:
            out.add((spec, 'value'))
        elif ':' in spec:
            p, what = spec.split(':')
            out.add((p, what))
        elif spec not in seen:
            out |= closure(classes, ci, spec, seen + (m,))
    return out


class _Opaque:
    """a value of a type param's Comparator does not know: never equal to anything, itself included, for changes-only filtering"""
    def __repr__(self):
        return 'OPAQUE'


class DependsWorld:
    name = 'depends'
    props = ('C06', 'C07')
    levels = {'C06': 'exploration', 'C07': 'exploration'}
    chunk = 300
    budget = {'quick': dict(runs=16000, wall=180.0), 'thorough': dict(runs=800000, wall=900.0)}
    time_unit = 'n/a: logical steps only'
    state_measure = 'C06: distinct (class shape, per-op expected-invocation multiset); C07: distinct (attachment graph, op kind) pairs'
    components = {'real': ['param.depends decorator (method and function form)', 'ParameterizedMetaclass dependency tables and inheritance',
                           'Parameters._update_deps/_watch_group/_resolve_dynamic_deps/_spec_to_obj/method_dependencies', '_m_caller/_skip_event'],
                  'stub': ['generated method bodies (append (defining class, method) to the invocation log)',
                           'dependency-closure model / attachment-path model (oracle)']}
    rules = {
        'C06': 'case = generated class family (single, chains, fork, diamond) with 1-3 dependent methods over parameters, a slot spec and a '
               'method dependency, overrides that re-decorate / drop the decorator / inherit, on_init and queued variants, function-form '
               'dependencies + program of set / same-value set / update / batch / slot set / construction on instances of any class of the '
               'family; per operation the multiset of (defining class, method) invocations must equal the closure model; non-trivial = the '
               'family has an override or a method dependency and some operation changed two parameters at once; distinct = distinct family '
               'shapes x op sequences.',
        'C07': 'case = parent with 1-3 dependent methods over 1-3 path dependencies (depth 1-3, several through the same sub-object, '
               '"sub.param") + history of attach / replace / detach at every level from a pool of reusable nodes (biased to equal-valued, '
               'first-dependency-only and later-dependency-only differences) and leaf assignments on attached and detached nodes; non-trivial = '
               'a node was detached and later poked or re-attached; distinct = distinct op sequences.'}
    assumptions = {'*': ['order among different methods is not checked', 'methods named as dependencies by other methods are never overridden '
                         '(the statement does not say which definition a stale inherited registration should follow)',
                         'transitions where a path does not resolve before or after the operation are not checked for that method']}

    # ------------------------------------------------------------------------------------------ generation
    def gen(self, rng, prop, tier, avoid):
        if prop == 'C07':
            return self.gen07(rng, tier, avoid)
        big = tier == 'thorough'
        classes = gen_family(rng)
        n_inst = rng.randint(1, 3)
        cfg = {'classes': classes, 'inst': [rng.randrange(len(classes)) if rng.random() < 0.4 else len(classes) - 1 for _ in range(n_inst)],
               'ff': []}
        for _ in range(rng.choice([0, 0, 1, 2])):
            cfg['ff'].append([[rng.randrange(n_inst), rng.choice(PARAMS)] for _ in range(rng.randint(1, 3))])
        n_ops = min(40 if big else 24, 2 + int(rng.expovariate(1 / (10.0 if big else 7.0))))
        ops = []
        for _ in range(n_ops):
            k = weighted(rng, [('set', 6), ('same', 1.5), ('update', 4), ('batch', 2), ('slot', 1.5), ('new', 1)])
            i = rng.randrange(n_inst)
            if k == 'set':
                ops.append({'op': 'set', 'i': i, 'p': rng.choice(PARAMS)})
            elif k == 'same':
                ops.append({'op': 'same', 'i': i, 'p': rng.choice(PARAMS)})
            elif k in ('update', 'batch'):
                ps = rng.sample(PARAMS, rng.randint(1, 3))
                ops.append({'op': k, 'i': i, 'ps': ps, 'same': [p for p in ps if rng.random() < 0.2]})
                if k == 'batch' and rng.random() < 0.3:
                    ops[-1]['slot'] = True
            elif k == 'slot':
                ops.append({'op': 'slot', 'i': i})
            else:
                ops.append({'op': 'new', 'c': rng.randrange(len(classes)), 'kw': rng.sample(PARAMS, rng.randint(0, 2))})
        return {'cfg': cfg, 'ops': ops}

    def skeleton(self, case):
        if case['prop'] == 'C07':
            return [op['op'] + (':' + str(op.get('how')) if op.get('how') else '') for op in case['ops']]
        cl = case['cfg']['classes']
        sh = ';'.join(','.join(f"{m}{'*' if d.get('dec') else '-'}" for m, d in sorted(c['methods'].items())) + str(c['bases']) for c in cl)
        return [sh] + [op['op'] for op in case['ops']]

    def simplify(self, case):
        cfg = case['cfg']
        if case['prop'] == 'C07':
            for i, m in enumerate(cfg['methods']):
                if len(cfg['methods']) > 1:
                    yield {**case, 'cfg': {**cfg, 'methods': cfg['methods'][:i] + cfg['methods'][i + 1:]}}
                if len(m['deps']) > 1:
                    for j in range(len(m['deps'])):
                        yield {**case, 'cfg': {**cfg, 'methods': cfg['methods'][:i] + [{**m, 'deps': m['deps'][:j] + m['deps'][j + 1:]}] + cfg['methods'][i + 1:]}}
                if m.get('async'):
                    yield {**case, 'cfg': {**cfg, 'methods': cfg['methods'][:i] + [{k: v for k, v in m.items() if k != 'async'}] + cfg['methods'][i + 1:]}}
            ops = case['ops']
            for i, op in enumerate(ops):
                for key in ('n', 'at', 'n1', 'n2'):
                    if op.get(key):
                        yield {**case, 'ops': ops[:i] + [{**op, key: 0}] + ops[i + 1:]}
            return
        classes = cfg['classes']
        # drop methods / simplify decorators
        for ci, c in enumerate(classes):
            for m, d in list(c['methods'].items()):
                c2 = {**c, 'methods': {a: b for a, b in c['methods'].items() if a != m}}
                yield {**case, 'cfg': {**cfg, 'classes': classes[:ci] + [c2] + classes[ci + 1:]}}
                if d.get('dec'):
                    for key, simple in (('on_init', False), ('watch', True)):
                        if d.get(key) != simple:
                            c2 = {**c, 'methods': {**c['methods'], m: {**d, key: simple}}}
                            yield {**case, 'cfg': {**cfg, 'classes': classes[:ci] + [c2] + classes[ci + 1:]}}
                    if len(d['deps']) > 1:
                        for j in range(len(d['deps'])):
                            c2 = {**c, 'methods': {**c['methods'], m: {**d, 'deps': d['deps'][:j] + d['deps'][j + 1:]}}}
                            yield {**case, 'cfg': {**cfg, 'classes': classes[:ci] + [c2] + classes[ci + 1:]}}
            if c.get('redeclare'):
                yield {**case, 'cfg': {**cfg, 'classes': classes[:ci] + [{**c, 'redeclare': False}] + classes[ci + 1:]}}
        if cfg['ff']:
            yield {**case, 'cfg': {**cfg, 'ff': []}}
        if len(cfg['inst']) > 1:
            yield {**case, 'cfg': {**cfg, 'inst': cfg['inst'][:1], 'ff': []}}

    # ------------------------------------------------------------------------------------------ C06 execution
    def run(self, case):
        if case['prop'] == 'C07':
            if any(m.get('async') for m in case['cfg']['methods']):
                # coroutine methods are scheduled on the running loop: a virtual loop stepped by the world
                from ..simloop import SimLoop
                loop = SimLoop()
                loop.install()
                try:
                    return self.run07(case, loop)
                finally:
                    loop.shutdown()
            return self.run07(case)
        import param
        out = Outcome()
        cfg = case['cfg']
        classes = cfg['classes']
        log = []
        real = []

        depth = [0]

        def make_method(ci, mname, d):
            def body(self):
                log.append((f"K{ci}", mname))
                if d.get('sets') and depth[0] < 6 and len(log) < 300:     # the guard only matters on a broken tree (runaway cascade)
                    depth[0] += 1
                    try:
                        setattr(self, d['sets'], fresh())
                    finally:
                        depth[0] -= 1
            body.__name__ = mname
            if d.get('dec'):
                return param.depends(*d['deps'], watch=d['watch'], on_init=d['on_init'])(body)
            return body
        try:
            for ci, c in enumerate(classes):
                ns = {}
                if ci == 0:
                    for p in PARAMS:
                        ns[p] = param.Number(default=0, bounds=(-1, None))
                elif c.get('redeclare'):
                    ns['a'] = param.Number(default=5)
                for m, d in c['methods'].items():
                    ns[m] = make_method(ci, m, d)
                real.append(type(f"K{ci}", tuple(real[b] for b in c['bases']) or (param.Parameterized,), ns))
        except Exception as e:      # noqa
            out.violations.append(('C06.exception', 0, f"class creation raised {type(e).__name__}: {str(e)[:200]}"))
            return out
        counter = [100]

        def fresh():
            counter[0] += 1
            return counter[0] % 90 + 1 if False else counter[0]
        insts, icls = [], []

        last_setters = [0]

        def expect_for(ci, changed, init=False):
            exp = []
            names = set()
            for k in mro_of(classes, ci):
                names |= set(classes[k]['methods'])
            setters = 0
            for m in sorted(names):
                k, d = active_def(classes, ci, m)
                if not d.get('dec') or not d.get('watch'):
                    continue
                if init:
                    if d.get('on_init'):
                        exp.append((f"K{k}", m))
                        setters += 1 if d.get('sets') else 0
                elif closure(classes, ci, m) & changed:
                    exp.append((f"K{k}", m))
                    setters += 1 if d.get('sets') else 0
            # every invoked setter assigns c once: each such assignment runs every method watching c once
            if setters:
                for m in sorted(names):
                    k, d = active_def(classes, ci, m)
                    if d.get('dec') and d.get('watch') and ('c', 'value') in closure(classes, ci, m):
                        exp.extend([(f"K{k}", m)] * setters)
            last_setters[0] = setters
            return sorted(exp)

        def check(step, what, exp, twice_ok=(), c_dependents=()):
            got = sorted(log)
            del log[:]
            if got != exp and twice_ok:
                # known finding: a value and a Parameter attribute of the method's dependencies changed in ONE batch; the two kinds
                # of change are watched separately, so such a method runs once per kind
                adj = list(got)
                hit = []
                for x in twice_ok:
                    if adj.count(x) == exp.count(x) + 1:
                        adj.remove(x)
                        hit.append(x)
                cascade = [x for x in adj if adj.count(x) > exp.count(x)]
                if hit and cascade and all(x in c_dependents for x in cascade) and not [x for x in exp if exp.count(x) > adj.count(x)]:
                    # the second run of such a method assigned c once more: its dependents ran once more as well
                    for x in set(cascade):
                        while adj.count(x) > exp.count(x):
                            adj.remove(x)
                if hit and sorted(adj) == exp:
                    d = (f"{what}: {hit} ran twice in one batch that changed both a value and a Parameter attribute they depend on "
                         f"(one watcher per kind of change)")
                    from ..kernel import tolerated
                    if 'C06.value_and_attribute_in_one_batch' in tolerated('C06'):
                        out.known.append(('C06.value_and_attribute_in_one_batch', d))
                        return True
                    out.violations.append(('C06.value_and_attribute_in_one_batch', step, d))
                    return False
            if got != exp:
                extra = [x for x in got if got.count(x) > exp.count(x)]
                missing = [x for x in exp if exp.count(x) > got.count(x)]
                clause = 'C06.once'
                if any(got.count(x) > 1 for x in set(got)):
                    clause = 'C06.once'
                elif extra and not missing:
                    clause = 'C06.never_otherwise'
                if 'construct' in what:
                    clause = 'C06.on_init'
                out.violations.append((clause, step, f"{what}: invoked {got}, expected {exp} (missing {sorted(set(missing))}, unexpected {sorted(set(extra))})"))
                return False
            return True

        def construct(ci, kw, step):
            vals = {p: fresh() for p in kw}
            try:
                o = real[ci](**vals)
            except Exception as e:      # noqa
                out.violations.append(('C06.exception', step, f"constructing K{ci} raised {type(e).__name__}: {str(e)[:160]}"))
                return None
            check(step, f"construct K{ci}({sorted(kw)})", expect_for(ci, set(), init=True))
            return o
        for ci in cfg['inst']:
            o = construct(ci, [], 0)
            if o is None:
                return out
            insts.append(o)
            icls.append(ci)
        if out.violations:
            return out
        # introspection cross-check
        for o, ci in zip(insts, icls):
            names = set()
            for k in mro_of(classes, ci):
                names |= set(classes[k]['methods'])
            for m in sorted(names):
                k, d = active_def(classes, ci, m)
                if d.get('dec'):
                    try:
                        got = {(pi.name, pi.what) for pi in o.param.method_dependencies(m)}
                    except Exception as e:      # noqa
                        out.violations.append(('C06.introspection', 0, f"method_dependencies({m!r}) raised {type(e).__name__}: {e}"))
                        return out
                    if got != closure(classes, ci, m):
                        out.violations.append(('C06.introspection', 0, f"method_dependencies(K{ci}.{m}) = {sorted(got)}, model closure {sorted(closure(classes, ci, m))}"))
                        return out
        # function-form dependencies
        ffs = []
        for fi, deps in enumerate(cfg['ff']):
            deps = [(i % len(insts), p) for i, p in deps]
            uniq = []
            for d in deps:
                if d not in uniq:
                    uniq.append(d)

            def fn(*args, _fi=fi):
                log.append(('FF', f"f{_fi}"))
            try:
                param.depends(*[getattr(insts[i].param, p) for i, p in uniq], watch=True)(fn)
            except Exception as e:      # noqa
                out.violations.append(('C06.function_form', 0, f"function-form depends raised {type(e).__name__}: {e}"))
                return out
            ffs.append(uniq)
        del log[:]
        multi = False
        states = []
        for step, op in enumerate(case['ops'], 1):
            if out.violations:
                break
            k = op['op']
            if k == 'new':
                if len(insts) < 4:
                    o = construct(op['c'] % len(classes), op['kw'], step)
                    if o is not None:
                        insts.append(o)
                        icls.append(op['c'] % len(classes))
                continue
            i = op['i'] % len(insts)
            o, ci = insts[i], icls[i]
            changed = set()
            try:
                if k == 'set':
                    setattr(o, op['p'], fresh())
                    changed.add((op['p'], 'value'))
                elif k == 'same':
                    setattr(o, op['p'], getattr(o, op['p']))
                elif k == 'update':
                    vals = {p: (getattr(o, p) if p in op['same'] else fresh()) for p in op['ps']}
                    o.param.update(**vals)
                    changed |= {(p, 'value') for p in op['ps'] if p not in op['same']}
                elif k == 'batch':
                    with param.parameterized.batch_call_watchers(o):
                        for p in op['ps']:
                            setattr(o, p, getattr(o, p) if p in op['same'] else fresh())
                        if op.get('slot'):
                            o.param.a.bounds = (-fresh(), None)
                            changed.add(('a', 'bounds'))
                    changed |= {(p, 'value') for p in op['ps'] if p not in op['same']}
                elif k == 'slot':
                    o.param.a.bounds = (-fresh(), None)
                    changed.add(('a', 'bounds'))
            except Exception as e:      # noqa
                out.violations.append(('C06.exception', step, f"{k} raised {type(e).__name__}: {str(e)[:160]}"))
                break
            exp = expect_for(ci, changed)
            for fi, deps in enumerate(ffs):
                if any(di == i and (p, 'value') in changed for di, p in deps):
                    exp.append(('FF', f"f{fi}"))
                if any(di == i and p == 'c' for di, p in deps):
                    exp.extend([('FF', f"f{fi}")] * last_setters[0])      # each setter's assignment of c is a change of its own
            exp.sort()
            if len(changed) > 1:
                multi = True
            out.log.append(f"{step} {k} I{i}(K{ci}) changed={sorted(changed)} expect={exp}")
            out.stats['op.' + k] += 1
            twice_ok, c_deps = (), ()
            if k == 'batch' and op.get('slot') and any(w == 'value' for _, w in changed):
                names_ = set()
                for kk in mro_of(classes, ci):
                    names_ |= set(classes[kk]['methods'])
                twice_ok, c_deps = [], []
                for m_ in sorted(names_):
                    kk, d_ = active_def(classes, ci, m_)
                    cl_ = closure(classes, ci, m_)
                    if d_.get('dec') and d_.get('watch') and ('a', 'bounds') in cl_ and any(c_ in cl_ for c_ in changed if c_[1] == 'value'):
                        twice_ok.append((f"K{kk}", m_))
                    if d_.get('dec') and d_.get('watch') and ('c', 'value') in cl_:
                        c_deps.append((f"K{kk}", m_))
                if any(active_def(classes, ci, m_)[1].get('sets') for _, m_ in twice_ok):
                    c_deps += [('FF', f"f{fi}") for fi, deps in enumerate(ffs) if any(di == i and p == 'c' for di, p in deps)]
                else:
                    c_deps = []
            check(step, f"{k} on I{i} (class K{ci}) changing {sorted(changed)}", exp, twice_ok, c_deps)
            states.append(f"{len(classes)}|{exp}")
        has_override = any(m in classes[k]['methods'] for k in range(1, len(classes)) for m in classes[0]['methods'])
        has_mdep = any('b0' in d.get('deps', []) for c in classes for d in c['methods'].values())
        if (has_override or has_mdep) and multi:
            out.sig = str(self.skeleton(case))
        if has_override:
            out.stats['probe.family_with_override'] += 1
        if has_mdep:
            out.stats['probe.method_dependency'] += 1
        if len(classes) == 4:
            out.stats['probe.diamond'] += 1
        out.states = tuple(states)
        return out

    # ============================================================================================ C07
    def gen07(self, rng, tier, avoid):
        big = tier == 'thorough'
        depth = rng.choice([1, 1, 2, 2, 3])
        leafs = ('x', 'y', 'z')
        slots = ('sub', 'alt') if rng.random() < 0.6 else ('sub',)

        def gen_dep():
            d = rng.randint(1, depth)
            path = [rng.choice(slots) for _ in range(d)]
            if rng.random() < 0.1:
                return path[0]          # the attached object itself (besides, possibly, something reached through it)
            if rng.random() < 0.12:
                return '.'.join(path) + '.param'
            return '.'.join(path) + '.' + rng.choice(leafs)
        methods = []
        for _ in range(rng.randint(1, 3)):
            deps = sorted(set(gen_dep() for _ in range(rng.randint(1, 3))))
            if rng.random() < 0.4 and len(deps) > 1:
                rng.shuffle(deps)          # declaration order matters to the grouping
            methods.append({'deps': deps, 'own': rng.random() < 0.2})
            if rng.random() < 0.2:
                methods[-1]['async'] = True
        if 'shared_subobject' in avoid:
            for m in methods:
                m['deps'] = m['deps'][:1]
        cfg = {'methods': methods, 'pool': rng.randint(4, 8), 'depth': depth, 'avoid': sorted(avoid), 'slots': list(slots),
               'prebuild': rng.random() < 0.85}
        n_ops = min(50 if big else 30, 3 + int(rng.expovariate(1 / (14.0 if big else 9.0))))
        ops = []
        hows = [('any', 3), ('equal', 2), ('first', 1.5), ('later', 2)]
        for _ in range(n_ops):
            k = weighted(rng, [('attach', 6), ('detach', 1.0), ('leaf', 6), ('leaf2', 1.5), ('swap2', 2 if len(slots) > 1 else 0), ('own', 0.7),
                               ('subbatch', 1.2), ('swap_twice', 1.0), ('batch_leaf', 2.0), ('leaf_opq', 1.0),
                               ('drain', 1.0 if any(m.get('async') for m in methods) else 0)])
            if k == 'drain':
                ops.append({'op': 'drain'})
            elif k == 'swap_twice':
                ops.append({'op': 'swap_twice', 'at': rng.randint(0, cfg['pool']), 'slot': rng.choice(slots), 'n1': rng.randrange(cfg['pool']),
                            'n2': rng.randrange(cfg['pool']), 'how1': weighted(rng, hows), 'how2': weighted(rng, [('equal', 3), ('any', 1), ('first', 1)]),
                            'back': rng.random() < 0.35, 'poke': rng.choice([None, None] + list(leafs)), 'once': rng.random() < 0.2,
                            'poke_new': rng.choice([None] + list(leafs))})
            elif k == 'batch_leaf':
                ops.append({'op': 'batch_leaf', 'variant': rng.choice(['mid', 'back', 'deep', 'deep', 'same']), 'at': rng.randint(0, cfg['pool']),
                            'slot': rng.choice(slots), 'n1': rng.randrange(cfg['pool']), 'n2': rng.randrange(cfg['pool']), 'pi': rng.randrange(6)})
            elif k == 'subbatch':
                ops.append({'op': 'subbatch', 'n': rng.randrange(cfg['pool']), 'p': rng.choice(leafs), 'at': rng.randint(0, cfg['pool']),
                            'slot': rng.choice(slots), 'n2': rng.randrange(cfg['pool']), 'how': weighted(rng, [('equal', 4), ('any', 1), ('first', 1)])})
            elif k == 'attach':
                ops.append({'op': 'attach', 'at': rng.randint(0, cfg['pool']), 'slot': rng.choice(slots), 'n': rng.randrange(cfg['pool']),
                            'how': weighted(rng, hows)})
            elif k == 'detach':
                ops.append({'op': 'detach', 'at': rng.randint(0, cfg['pool']), 'slot': rng.choice(slots)})
            elif k == 'leaf_opq':
                ops.append({'op': 'leaf_opq', 'n': rng.randrange(cfg['pool']), 'p': rng.choice(leafs), 'how': rng.choice(['set', 'set', 'trigger', 'trigger_batched'])})
            elif k == 'leaf':
                ops.append({'op': 'leaf', 'n': rng.randrange(cfg['pool']), 'p': rng.choice(leafs), 'same': rng.random() < 0.15})
            elif k == 'leaf2':
                ps = rng.sample(leafs, 2)
                ops.append({'op': 'leaf2', 'n': rng.randrange(cfg['pool']), 'ps': ps, 'same': [p for p in ps if rng.random() < 0.3]})
            elif k == 'swap2':
                ops.append({'op': 'swap2', 'at': rng.randint(0, cfg['pool']), 'n1': rng.randrange(cfg['pool']), 'n2': rng.randrange(cfg['pool']),
                            'how1': weighted(rng, hows), 'how2': weighted(rng, hows)})
            else:
                ops.append({'op': 'own'})
        return {'cfg': cfg, 'ops': ops}

    def run07(self, case, loop=None):
        import param
        out = Outcome()
        cfg = case['cfg']
        log = []
        gates = []      # futures the running coroutine methods wait on (released by 'drain')

        def settle():
            """let every task the operation scheduled run its first segment (the coroutine method starts, logs, suspends)"""
            if loop is not None:
                for _ in range(8):
                    n = loop.ready_count()
                    if not n:
                        break
                    for _ in range(n):
                        loop.step()

        def release():
            for g in gates:
                if not g.done():
                    g.set_result(None)
            del gates[:]
            if loop is not None:
                loop.drain(5000)
        SLOTS = tuple(cfg.get('slots', ['sub']))

        class Node(param.Parameterized):
            x = param.Parameter(default=0)
            y = param.Parameter(default=0)
            z = param.Parameter(default=0)
            sub = param.Parameter(default=None)
            alt = param.Parameter(default=None)
        ns = {'own': param.Parameter(default=0), 'sub': param.Parameter(default=None), 'alt': param.Parameter(default=None)}
        for mi, m in enumerate(cfg['methods']):
            if m.get('async'):
                async def body(self, _mi=mi):
                    log.append(_mi)
                    g = loop.create_future()
                    gates.append(g)
                    await g             # stays pending across later operations, until a 'drain'
            else:
                def body(self, _mi=mi):
                    log.append(_mi)
            body.__name__ = f"m{mi}"
            deps = list(m['deps']) + (['own'] if m.get('own') else [])
            ns[f"m{mi}"] = param.depends(*deps, watch=True)(body)
        try:
            Parent = type('Parent', (param.Parameterized,), ns)
            parent = Parent()
        except Exception as e:      # noqa
            out.violations.append(('C07.exception', 0, f"building the parent raised {type(e).__name__}: {str(e)[:200]}"))
            return out
        pool = [Node(name='N') for _ in range(cfg['pool'])]
        base = [self.wcount(n) for n in pool]
        # model: attachment per (holder, slot) + leaf values
        att = {}
        for h in ['P'] + list(range(len(pool))):
            for sl in ('sub', 'alt'):
                att[(h, sl)] = None
        leaf = [{'x': 0, 'y': 0, 'z': 0} for _ in pool]
        counter = [0]
        poked_detached = False
        ever_attached = set()

        def holder(at):
            return 'P' if at == 0 else (at - 1) % len(pool)

        def real(h):
            return parent if h == 'P' else pool[h]

        def resolve(dep):
            parts = dep.split('.')
            if len(parts) == 1:
                return f"OBJ:{att[('P', parts[0])]}"        # a direct dependency on the slot: the attached object itself
            cur = 'P'
            for sl in parts[:-1]:
                cur = att[(cur, sl)]
                if cur is None:
                    return 'UNRESOLVED'
            if parts[-1] == 'param':
                return ('all', leaf[cur]['x'], leaf[cur]['y'], leaf[cur]['z'], ('node', att[(cur, 'sub')], att[(cur, 'alt')]))
            return leaf[cur][parts[-1]]

        def reachable(start='P'):
            seen, stack = set(), [start]
            while stack:
                h = stack.pop()
                for sl in ('sub', 'alt'):
                    n = att[(h, sl)]
                    if n is not None and n not in seen:
                        seen.add(n)
                        stack.append(n)
            return seen

        def shape(n, old, how):
            """give node n (not reachable from the parent) leaf values relative to the node it replaces; must call nothing"""
            if old is None or old == n or how == 'any' or n in reachable():
                return True
            used = []
            for m in cfg['methods']:
                for d in m['deps']:
                    if d.split('.')[-1] in ('x', 'y', 'z') and d.split('.')[-1] not in used:
                        used.append(d.split('.')[-1])
            for p in ('x', 'y', 'z'):
                leaf[n][p] = leaf[old][p]
            if how == 'first' and used:
                counter[0] += 1
                leaf[n][used[0]] = 1000 + counter[0]
            elif how == 'later' and len(used) > 1:
                counter[0] += 1
                leaf[n][used[-1]] = 1000 + counter[0]
            del log[:]
            for p in ('x', 'y', 'z'):
                setattr(pool[n], p, leaf[n][p])
            settle()
            if log:
                out.violations.append(('C07.silent', 0, f"writing leaves of N{n}, which is not attached under the parent, ran methods {log}"))
                return False
            return True

        def snapshot():
            return [[resolve(d) for d in m['deps']] for m in cfg['methods']]

        def do_attach(h, sl, n):
            real(h).__setattr__(sl, pool[n])

        # optional: start from fully resolved paths
        if cfg.get('prebuild'):
            nxt = [0]
            try:
                for m in cfg['methods']:
                    for d in m['deps']:
                        cur = 'P'
                        for sl in d.split('.')[:-1]:
                            if att[(cur, sl)] is None and nxt[0] < len(pool):
                                n = nxt[0]
                                nxt[0] += 1
                                setattr(real(cur), sl, pool[n])
                                att[(cur, sl)] = n
                                ever_attached.add(n)
                            cur = att[(cur, sl)]
                            if cur is None:
                                break
            except Exception as e:      # noqa
                out.violations.append(('C07.exception', 0, f"attaching the initial sub-objects raised {type(e).__name__}: {str(e)[:200]}"))
                return out
            settle()
            del log[:]
        states = []
        for step, op in enumerate(case['ops'], 1):
            if out.violations:
                break
            k = op['op']
            own_changed = False
            stale_poke = False
            poked_new = False
            desc = k
            before = snapshot()
            try:
                if k == 'attach':
                    h = holder(op['at'])
                    sl = op.get('slot', 'sub')
                    if sl not in SLOTS:
                        sl = SLOTS[0]
                    n = op['n'] % len(pool)
                    if h == n or (h != 'P' and h in reachable(n) | {n}):
                        continue            # no cycles
                    if not shape(n, att[(h, sl)], op.get('how', 'any')):
                        break
                    del log[:]
                    before = snapshot()
                    setattr(real(h), sl, pool[n])
                    att[(h, sl)] = n
                    ever_attached.add(n)
                    desc = f"attach N{n} under {h}.{sl} ({op.get('how')})"
                elif k == 'swap2':
                    h = holder(op['at'])
                    if len(SLOTS) < 2:
                        continue
                    n1, n2 = op['n1'] % len(pool), op['n2'] % len(pool)
                    if n1 == n2 or h in (n1, n2) or (h != 'P' and (h in reachable(n1) or h in reachable(n2))):
                        continue
                    if not shape(n1, att[(h, 'sub')], op.get('how1', 'any')) or not shape(n2, att[(h, 'alt')], op.get('how2', 'any')):
                        break
                    del log[:]
                    before = snapshot()
                    real(h).param.update(sub=pool[n1], alt=pool[n2])
                    att[(h, 'sub')], att[(h, 'alt')] = n1, n2
                    ever_attached.update((n1, n2))
                    out.stats['probe.two_slots_replaced_in_one_batch'] += 1
                    desc = f"batch-attach N{n1},N{n2} under {h} ({op.get('how1')},{op.get('how2')})"
                elif k == 'swap_twice':
                    # the same slot replaced twice inside one batch on the holder: one coalesced change, from the object
                    # attached before the batch to the one attached at its end
                    h = holder(op['at'])
                    sl = op.get('slot', 'sub')
                    if sl not in SLOTS:
                        sl = SLOTS[0]
                    n1, n2 = op['n1'] % len(pool), op['n2'] % len(pool)
                    was = att[(h, sl)]
                    alone = was is not None and sum(1 for v in att.values() if v == was) == 1
                    if op.get('back') and alone:
                        n2 = was            # ... and put back: the object attached before the batch is attached again at its end
                    if n1 == n2 or h in (n1, n2) or (h != 'P' and (h in reachable(n1) or h in reachable(n2))):
                        continue
                    if n1 in reachable() or (n2 in reachable() and n2 != was):
                        continue
                    if not shape(n1, was, op.get('how1', 'any')) or not shape(n2, n1, op.get('how2', 'equal')):
                        break
                    del log[:]
                    before = snapshot()
                    poke = op.get('poke') if (alone and was != n1 and h in reachable() | {'P'}) else None
                    stale_poke = bool(poke) and h != 'P'
                    with param.parameterized.batch_call_watchers(real(h)):
                        setattr(real(h), sl, pool[n1])
                        if poke:
                            # the object attached before the batch is modified while it is detached (it may come back)
                            counter[0] += 1
                            setattr(pool[was], poke, counter[0])
                            leaf[was][poke] = counter[0]
                            out.stats['probe.detached_object_modified_inside_the_batch'] += 1
                        if op.get('once'):
                            n2 = n1         # a single replacement; the replaced object is modified before the batch ends
                        else:
                            setattr(real(h), sl, pool[n2])
                            if n2 == was and not poke and op.get('poke_new') and h == 'P':
                                # back in place, unmodified: nothing changed so far. Now a leaf of the attached object is
                                # assigned, still inside the batch of the holder: one change, announced by the object itself
                                counter[0] += 1
                                setattr(pool[was], op['poke_new'], counter[0])
                                leaf[was][op['poke_new']] = counter[0]
                                out.stats['probe.attached_object_modified_inside_the_batch_after_coming_back'] += 1
                                poked_new = True
                    att[(h, sl)] = n2
                    ever_attached.update((n1, n2))
                    out.stats['probe.slot_replaced_once_in_a_batch' if op.get('once') else 'probe.slot_replaced_twice_in_one_batch'] += 1
                    if n2 == was:
                        out.stats['probe.slot_swapped_out_and_back_in_one_batch'] += 1
                    desc = (f"batch: attach N{n1}{', set N%s.%s while detached,' % (was, poke) if poke else ''} then N{n2} under {h}.{sl} "
                            f"({op.get('how1')},{op.get('how2')})")
                elif k == 'detach':
                    h = holder(op['at'])
                    sl = op.get('slot', 'sub')
                    if att[(h, sl)] is None:
                        continue
                    del log[:]
                    setattr(real(h), sl, None)
                    att[(h, sl)] = None
                    desc = f"detach {h}.{sl}"
                elif k in ('leaf', 'leaf2'):
                    n = op['n'] % len(pool)
                    ps = [op['p']] if k == 'leaf' else list(op['ps'])
                    same = ([op['p']] if op.get('same') else []) if k == 'leaf' else op.get('same', [])
                    vals = {}
                    for p in ps:
                        if p in same:
                            vals[p] = leaf[n][p]
                        else:
                            counter[0] += 1
                            vals[p] = counter[0]
                    del log[:]
                    if k == 'leaf':
                        setattr(pool[n], ps[0], vals[ps[0]])
                    else:
                        pool[n].param.update(**vals)
                    leaf[n].update(vals)
                    if n not in reachable() and n in ever_attached:
                        poked_detached = True
                        out.stats['probe.detached_node_poked'] += 1
                    desc = f"{k} N{n} {vals}"
                elif k == 'leaf_opq':
                    # A leaf holds a value of a type the library cannot compare (think of a data frame): assigning the very same object
                    # again is how an in-place modification is announced, and it counts as a change for every changes-only watcher -
                    # hence for every method that reaches the leaf through the current path (regression found by a reviewer in the
                    # repair 4a0bd4c: the parent's method was skipped because old is new).  'trigger': the same announced with
                    # param.trigger on the object that holds the leaf.
                    n = op['n'] % len(pool)
                    pn = op['p']

                    def reaches(dep):
                        parts = dep.split('.')
                        if len(parts) == 1:
                            return False
                        cur = 'P'
                        for sl in parts[:-1]:
                            cur = att[(cur, sl)]
                            if cur is None:
                                return False
                        return cur == n and parts[-1] in (pn, 'param')
                    affected = [mi for mi, m in enumerate(cfg['methods']) if any(reaches(d) for d in m['deps'])]
                    opq = _Opaque()
                    def trigger_batched():
                        with param.parameterized.batch_call_watchers(pool[n]):
                            pool[n].param.trigger(pn)
                    phases = [('a value of an uncomparable type assigned', lambda: setattr(pool[n], pn, opq)),
                              {'trigger': ('param.trigger on the leaf after an in-place modification', lambda: pool[n].param.trigger(pn)),
                               'trigger_batched': ('param.trigger on the leaf inside batch_call_watchers on the object that holds it',
                                                   trigger_batched)}.get(
                                  op.get('how'), ('the very same object assigned again', lambda: setattr(pool[n], pn, opq)))]
                    for what_, act in phases:
                        del log[:]
                        act()
                        settle()
                        for mi, m in enumerate(cfg['methods']):
                            exp = 1 if mi in affected else 0
                            if log.count(mi) != exp and not out.violations:
                                out.violations.append(('C07.fire' if exp else 'C07.silent', step,
                                                       f"leaf_opq N{n}.{pn}: {what_}: m{mi} depends on {m['deps']} and "
                                                       f"{'reaches' if exp else 'does not reach'} that leaf through the current path; it ran "
                                                       f"{log.count(mi)} times, expected {exp}"))
                        if out.violations:
                            break
                    if out.violations:
                        break
                    out.stats['probe.same_uncomparable_object_reassigned_to_leaf'] += 1 if affected else 0
                    # ... and back to a plain value, judged like any other leaf assignment
                    counter[0] += 1
                    del log[:]
                    before = snapshot()
                    setattr(pool[n], pn, counter[0])
                    leaf[n][pn] = counter[0]
                    if n not in reachable() and n in ever_attached:
                        poked_detached = True
                    desc = f"leaf_opq N{n}.{pn} = {counter[0]}"
                elif k == 'batch_leaf':
                    # inside a batch on the holder: a slot is replaced (announced when the batch ends) and a leaf of the NEW object
                    # is assigned. For the object that declares the methods the dependencies follow at once (the leaf change is
                    # announced immediately: 'mid' = the slot is then replaced again, 'back' = the leaf is set back to what was
                    # shown before); below it they follow when the batch ends ('deep': the leaf change is part of the replacement).
                    # The calls are those of a method that is told of every change of what it sees, once.
                    variant = op.get('variant', 'mid')
                    h = holder(op['at'])
                    sl = op.get('slot', 'sub')
                    if sl not in SLOTS:
                        sl = SLOTS[0]
                    was = att[(h, sl)]
                    n1, n2 = op['n1'] % len(pool), op['n2'] % len(pool)
                    if variant == 'same':
                        # the very same object is assigned to the slot inside the batch, then one of its leaves: nothing is
                        # replaced, the change is announced by the object as always
                        if was is None or (h != 'P' and h not in reachable()) or loop is not None:
                            continue
                        ok_m = [mi_ for mi_, m_ in enumerate(cfg['methods']) if not m_.get('async') and
                                not any('.' not in d or d.endswith('param') for d in m_['deps'])]
                        used2 = [d.split('.')[-1] for mi_ in ok_m for d in cfg['methods'][mi_]['deps']]
                        if not used2:
                            continue
                        p2 = used2[op.get('pi', 0) % len(used2)]
                        settle()
                        del log[:]
                        v0 = snapshot()
                        counter[0] += 1
                        with param.parameterized.batch_call_watchers(real(h)):
                            setattr(real(h), sl, pool[was])
                            setattr(pool[was], p2, counter[0])
                            leaf[was][p2] = counter[0]
                        settle()
                        v2 = snapshot()
                        got = list(log)
                        del log[:]
                        desc = f"batch on {h}: {h}.{sl} = N{was} (the object it holds), N{was}.{p2} = {counter[0]} (same)"
                        out.log.append(f"{step} {desc} -> calls {got}")
                        out.stats['op.batch_leaf'] += 1
                        out.stats['probe.leaf_of_newly_attached_object_set_inside_the_batch.same'] += 1
                        for mi in ok_m:
                            if 'UNRESOLVED' in v0[mi] or 'UNRESOLVED' in v2[mi]:
                                continue
                            want = 1 if v0[mi] != v2[mi] else 0
                            out.stats['decided_method_checks'] += 1
                            if got.count(mi) != want:
                                out.violations.append(('C07.fire' if got.count(mi) < want else 'C07.silent', step,
                                                       f"{desc}: m{mi} depends on {cfg['methods'][mi]['deps']}; it saw {v0[mi]} before and the path "
                                                       f"shows {v2[mi]} at the end: {want} call(s), it ran {got.count(mi)} times"))
                                break
                        if out.violations:
                            break
                        states.append(f"{sorted((str(h_), v) for h_, v in att.items() if v is not None)}|{k}")
                        continue
                    if (variant == 'deep') != (h != 'P') or was is None or (h != 'P' and h not in reachable()):
                        continue
                    def crisp(m_):
                        # (coroutine methods are counted by another clause; a dependency on the slot itself or on '...param' over
                        # node-valued parameters falls under don't-care rules of the generic check)
                        return not m_.get('async') and not any('.' not in d or d.endswith('param') for d in m_['deps'])
                    if loop is not None or not any(crisp(m_) for m_ in cfg['methods']):
                        continue
                    if len({n1, n2, was}) < 3 or h in (n1, n2) or n1 in reachable() or n2 in reachable() or \
                            (h != 'P' and (h in reachable(n1) or h in reachable(n2))):
                        continue
                    used_ = [d.split('.')[-1] for m_ in cfg['methods'] if crisp(m_) for d in m_['deps']]
                    p_ = used_[op.get('pi', 0) % len(used_)]
                    if not shape(n1, was, 'first' if variant == 'back' else 'equal') or not shape(n2, was, 'equal'):
                        break
                    if variant == 'back':
                        p_ = used_[0]
                    settle()
                    del log[:]
                    v0 = snapshot()
                    with param.parameterized.batch_call_watchers(real(h)):
                        setattr(real(h), sl, pool[n1])
                        att[(h, sl)] = n1
                        v1 = snapshot()
                        if variant == 'back':
                            newv = leaf[was][p_]
                        else:
                            counter[0] += 1
                            newv = counter[0]
                        setattr(pool[n1], p_, newv)
                        leaf[n1][p_] = newv
                        v2 = snapshot()
                        if variant == 'mid':
                            setattr(real(h), sl, pool[n2])
                            att[(h, sl)] = n2
                        v3 = snapshot()
                    settle()
                    got = list(log)
                    del log[:]
                    ever_attached.update((n1, n2) if variant == 'mid' else (n1,))
                    desc = (f"batch on {h}: attach N{n1} under {h}.{sl}, N{n1}.{p_} = {newv}" +
                            (f", attach N{n2}" if variant == 'mid' else '') + f" ({variant})")
                    out.log.append(f"{step} {desc} -> calls {got}")
                    out.stats['op.batch_leaf'] += 1
                    out.stats['probe.leaf_of_newly_attached_object_set_inside_the_batch.' + variant] += 1
                    for mi, m in enumerate(cfg['methods']):
                        if not crisp(m):
                            continue
                        if any('UNRESOLVED' in v[mi] for v in (v0, v1, v2, v3)):
                            out.stats['dontcare.path_unresolved'] += 1
                            continue
                        knows, want = v0[mi], 0
                        if variant != 'deep' and v2[mi] != v1[mi]:
                            want, knows = want + 1, v2[mi]
                        if knows != v3[mi]:
                            want += 1
                        out.stats['decided_method_checks'] += 1
                        if got.count(mi) != want:
                            out.violations.append(('C07.fire' if got.count(mi) < want else 'C07.silent', step,
                                                   f"{desc}: m{mi} depends on {m['deps']}; it saw {v0[mi]} before, the path showed {v1[mi]} after the "
                                                   f"replacement, {v2[mi]} after the leaf assignment and {v3[mi]} at the end: {want} call(s) keep it "
                                                   f"informed, it ran {got.count(mi)} times"))
                            break
                    if out.violations:
                        break
                    states.append(f"{sorted((str(h_), v) for h_, v in att.items() if v is not None)}|{k}")
                    continue
                elif k == 'subbatch':
                    # a leaf assignment made while the events of that sub-object are batched, followed - inside the same batch -
                    # by an attachment somewhere under the parent (which re-installs the parent's watchers)
                    n = op['n'] % len(pool)
                    h = holder(op['at'])
                    sl = op.get('slot', 'sub')
                    if sl not in SLOTS:
                        sl = SLOTS[0]
                    n2 = op['n2'] % len(pool)
                    if h == n2 or (h != 'P' and h in reachable(n2) | {n2}):
                        continue
                    if not shape(n2, att[(h, sl)], op.get('how', 'equal')):
                        break
                    settle()
                    del log[:]
                    before = snapshot()
                    counter[0] += 1
                    with param.parameterized.batch_call_watchers(pool[n]):
                        setattr(pool[n], op['p'], counter[0])
                        leaf[n][op['p']] = counter[0]
                        mid = snapshot()
                        setattr(real(h), sl, pool[n2])
                        att[(h, sl)] = n2
                        ever_attached.add(n2)
                    settle()
                    after = snapshot()
                    got = list(log)
                    del log[:]
                    desc = f"N{n}.{op['p']} = {counter[0]} and attach N{n2} under {h}.{sl} ({op.get('how')}) inside batch_call_watchers(N{n})"
                    out.log.append(f"{step} {desc} -> calls {got}")
                    out.stats['op.subbatch'] += 1
                    for mi, m in enumerate(cfg['methods']):
                        b, md, a = before[mi], mid[mi], after[mi]
                        if any(x == 'UNRESOLVED' for x in list(b) + list(md) + list(a)) or any(isinstance(x, tuple) for x in list(b) + list(a)):
                            out.stats['dontcare.path_unresolved'] += 1
                            continue
                        if h == 'P' and any(isinstance(x, str) and x.startswith('OBJ:') and x == y for x, y in zip(md, a)):
                            out.stats['dontcare.same_object_reassigned_to_directly_watched_slot'] += 1
                            continue
                        c1, c2 = b != md, md != a
                        if c1 and c2:
                            continue        # two separate changes, one of them deferred: once or twice
                        want = 1 if (c1 or c2) else 0
                        out.stats['decided_method_checks'] += 1
                        if c1:
                            out.stats['probe.batched_leaf_change_then_rebuild'] += 1
                        direct_ = [d for d in m['deps'] if '.' not in d]
                        if got.count(mi) == 2 and any(x != y for dd, x, y in zip(m['deps'], md, a) if dd in direct_) and \
                                any(x != y or 'UNRESOLVED' in (x, y) for dd, x, y in zip(m['deps'], md, a) if '.' in dd):
                            from ..kernel import tolerated
                            d_ = (f"{desc}: m{mi} depends on {m['deps']}: a direct dependency and a sub-object path changed in the same "
                                  f"operation ({md} -> {a}); the method ran twice")
                            if 'C07.direct_and_routed_dependency_run_twice' in tolerated('C07'):
                                out.known.append(('C07.direct_and_routed_dependency_run_twice', d_))
                                continue
                            out.violations.append(('C07.direct_and_routed_dependency_run_twice', step, d_))
                            break
                        if got.count(mi) != want:
                            out.violations.append(('C07.fire' if want else 'C07.silent', step,
                                                   f"{desc}: m{mi} depends on {m['deps']}; values through the current path {b} -> {md} -> {a}; "
                                                   f"the method ran {got.count(mi)} times, expected {want}"))
                            break
                    if out.violations:
                        break
                    states.append(f"{sorted((str(h_), v) for h_, v in att.items() if v is not None)}|{k}")
                    continue
                elif k == 'own':
                    counter[0] += 1
                    del log[:]
                    parent.own = counter[0]
                    own_changed = True
                elif k == 'drain':
                    del log[:]
                    if gates:
                        out.stats['probe.coroutine_methods_completed_late'] += 1
                    release()
                settle()
            except Exception as e:      # noqa
                out.violations.append(('C07.exception', step, f"{desc} raised {type(e).__name__}: {str(e)[:200]}"))
                break
            after = snapshot()
            got = list(log)
            del log[:]
            out.log.append(f"{step} {desc} -> calls {got}")
            out.stats['op.' + k] += 1
            for mi, m in enumerate(cfg['methods']):
                b, a = before[mi], after[mi]
                n_calls = got.count(mi)
                unresolved = any(x == 'UNRESOLVED' or y == 'UNRESOLVED' for x, y in zip(b, a))
                if k in ('attach', 'detach', 'swap2', 'swap_twice') and any(isinstance(x, tuple) and isinstance(y, tuple) and
                                                             (x[4][1] is not None or x[4][2] is not None) and (y[4][1] is not None or y[4][2] is not None)
                                                             for x, y in zip(b, a)):
                    # '...param' over nodes that themselves hold a node: equality of Parameterized values is unspecified
                    out.stats['dontcare.param_dep_over_node_valued_parameter'] += 1
                    continue
                if k in ('attach', 'swap2', 'swap_twice', 'detach') and holder(op['at']) == 'P' and any(
                        isinstance(x, str) and x.startswith('OBJ:') and x == y for x, y in zip(b, a)):
                    # a slot the method depends on directly was (possibly) re-assigned the object it already held: whether that
                    # counts as a change is the changes-only rule for values of an unlisted type, which is left open
                    out.stats['dontcare.same_object_reassigned_to_directly_watched_slot'] += 1
                    continue
                changed = (any(x != y for x, y in zip(b, a) if x != 'UNRESOLVED' and y != 'UNRESOLVED') or
                           (own_changed and m.get('own')))
                if not changed and unresolved:
                    # the statement decides only dependencies whose path resolves both before and after
                    out.stats['dontcare.path_unresolved'] += 1
                    continue
                if poked_new and unresolved and changed and n_calls == 2:
                    # one of the method's paths does not resolve: the re-attachment counts for it (nothing to compare), next to
                    # the change of the attached object itself. The statement decides paths that resolve before and after
                    out.stats['dontcare.path_unresolved'] += 1
                    continue
                out.stats['decided_method_checks'] += 1
                if stale_poke and n_calls == (2 if changed else 1):
                    # known finding: the batch is open on a holder below the parent, so the parent learns of the replacement only
                    # when the batch ends; until then its watchers sit on the replaced object, and modifying that object runs the method
                    d_ = (f"{desc}: m{mi} depends on {m['deps']}: the object replaced inside a batch opened on the intermediate holder was "
                          f"modified while detached and ran the method (the parent's watchers follow the replacement only when the holder's "
                          f"batch ends); values through the current path {b} -> {a}, the method ran {n_calls} times")
                    from ..kernel import tolerated
                    if 'C07.detached_object_runs_method_inside_batch_on_intermediate_holder' in tolerated('C07'):
                        out.known.append(('C07.detached_object_runs_method_inside_batch_on_intermediate_holder', d_))
                        continue
                    out.violations.append(('C07.detached_object_runs_method_inside_batch_on_intermediate_holder', step, d_))
                    break
                if changed and n_calls == 2:
                    # known finding: the method depends on an attribute itself AND on something reached through it: the direct
                    # dependency and the path have a watcher each, a replacement that changes both runs the method twice
                    direct = [d for d in m['deps'] if '.' not in d]
                    both = [d for d in direct if any(x != y for dd, x, y in zip(m['deps'], b, a) if dd == d) and
                            any(x != y or 'UNRESOLVED' in (x, y) for dd, x, y in zip(m['deps'], b, a) if '.' in dd)]
                    if both:
                        d_ = (f"{desc}: m{mi} depends on {m['deps']}: {both} changed itself and so did a value reached through a sub-object "
                              f"path ({b} -> {a}) in the same operation; the method ran twice (one watcher for the direct dependencies, one "
                              f"per path root)")
                        from ..kernel import tolerated
                        if 'C07.direct_and_routed_dependency_run_twice' in tolerated('C07'):
                            out.known.append(('C07.direct_and_routed_dependency_run_twice', d_))
                            continue
                        out.violations.append(('C07.direct_and_routed_dependency_run_twice', step, d_))
                        break
                if changed and n_calls != 1:
                    which = [d for d, x, y in zip(m['deps'], b, a) if x != y]
                    out.violations.append(('C07.fire', step, f"{desc}: m{mi} depends on {m['deps']}; values through the current path changed for {which} "
                                                              f"({b} -> {a}) but the method ran {n_calls} times"))
                    break
                if not changed and n_calls != 0:
                    out.violations.append(('C07.silent', step, f"{desc}: m{mi} depends on {m['deps']}; no value reached through the current path changed "
                                                               f"({b} -> {a}) but the method ran {n_calls} times"))
                    break
            if out.violations:
                break
            reach = reachable()
            for n in range(len(pool)):
                if n not in reach and self.wcount(pool[n]) != base[n]:
                    out.violations.append(('C07.leak', step, f"{desc}: N{n} is attached nowhere under the parent but carries "
                                                             f"{self.wcount(pool[n]) - base[n]} watcher(s)"))
                    break
            states.append(f"{sorted((str(h), v) for h, v in att.items() if v is not None)}|{k}")
        if loop is not None and not out.violations:
            release()
            if loop.exc_reports:
                out.violations.append(('C07.exception', len(case['ops']) + 1, f"a scheduled coroutine method failed: {loop.exc_reports[:2]}"))
            if any(m.get('async') for m in cfg['methods']):
                out.stats['probe.coroutine_method'] += 1
        if poked_detached or any(op['op'] == 'detach' for op in case['ops']):
            out.sig = ','.join(self.skeleton(case))
        shared = any(len({d.rsplit('.', 1)[0] for d in m['deps']}) < len(m['deps']) for m in cfg['methods'])
        if shared:
            out.stats['probe.several_deps_through_one_subobject'] += 1
        if any(len({d.split('.')[0] for d in m['deps']}) > 1 for m in cfg['methods']):
            out.stats['probe.dependencies_under_two_root_attributes'] += 1
        out.states = tuple(states)
        return out

    @staticmethod
    def wcount(obj):
        return sum(len(lst) for whats in obj.param.watchers.values() for lst in whats.values())


register(DependsWorld())
