"""DispatchWorld — C03 (exactly-once immediate dispatch), C04 (batched dispatch), C05 (faults never corrupt
the dispatch state; see dispatch_faults.py for the twin oracle).

The same program (top-level operations + scripted, re-entrant callbacks) is interpreted twice: once against the
real param objects, once against the reference dispatcher in sim/models/dispatch_model.py.  Both produce a
structured delivery history which is compared entry by entry, three-valued where the statements are silent.
"""
import datetime as dt

from ..kernel import Outcome, register, weighted
from ..models.dispatch_model import DispatchModel, MWatcher, ModelReject, eq3, _Inheriting

PN = ('p0', 'p1', 'p2', 'p3')
MAX_CALLS = 150


# ----------------------------------------------------------------------------- values

class Opaque:
    __slots__ = ('tag',)

    def __init__(self, tag):
        self.tag = tag


def is_immutable_scalar(v):
    return v is None or isinstance(v, (bool, int, float, complex, str, bytes, dt.date))


class Values:
    """Creates value objects from JSON specs; renders objects canonically (identity for mutables)."""

    def __init__(self):
        self.names = {}
        self.keep = []
        self.n = 0

    def mk(self, spec):
        k = spec['k']
        x = spec.get('x')
        # (every call builds a new object - or returns an interpreter-wide singleton - whatever objects the case itself is made
        # of: a generated case shares its literals, the same case read back from a replay file does not, and a change that
        # compares by identity must fail the same way in both)
        if k == 'int':
            v = int(str(int(x)))
        elif k == 'bool':
            v = bool(x)
        elif k == 'float':
            v = float(repr(float(x)))
        elif k == 'nan':
            v = float('nan')
        elif k == 'str':
            v = ''.join(list(str(x)))
        elif k == 'bytes':
            v = str(x).encode()
        elif k == 'none':
            v = None
        elif k == 'date':
            v = dt.date(2020, 1, 1 + int(x) % 28)
        elif k == 'datetime':
            v = dt.datetime(2020, 1, 1 + int(x) % 28)
        elif k == 'list':
            v = [self.mk(s) for s in x]
        elif k == 'tuple':
            v = tuple(self.mk(s) for s in x)
        elif k == 'dict':
            keys = spec.get('keys') or [str(i) for i in range(len(x))]
            v = {str(keys[i % len(keys)]) if keys else str(i): self.mk(s) for i, s in enumerate(x)}
        elif k == 'opaque':
            v = Opaque(x)
        elif k == 'set':
            v = set()
            for i in x:
                v.add(int(i))
        elif k == 'odict':
            import collections
            v = collections.OrderedDict((str(key), 1) for key in x)
        else:
            raise ValueError(k)
        return self.reg(v)

    def reg(self, v):
        if not is_immutable_scalar(v) and id(v) not in self.names:
            self.n += 1
            self.names[id(v)] = f"#{self.n}"
            self.keep.append(v)
        return v

    def equal_copy(self, v):
        """A distinct object that Python (and the statement) considers equal, where one exists."""
        if isinstance(v, bool):
            return int(v)
        if isinstance(v, int):
            return float(v) if abs(v) < 2 ** 50 else v
        if isinstance(v, float):
            return int(v) if v == int(v) else float(repr(v))
        if isinstance(v, str):
            return ''.join(list(v))
        if isinstance(v, set):
            c = set()
            for i in reversed(list(v)):
                c.add(i)
            return self.reg(c)
        if isinstance(v, list):
            return self.reg(list(v))
        if isinstance(v, dict):
            return self.reg(dict(v))
        if isinstance(v, tuple):
            return self.reg(tuple(list(v)))
        return v

    def r(self, v):
        if is_immutable_scalar(v):
            if isinstance(v, float) and v != v:
                return 'float:nan'
            return f"{type(v).__name__}:{v!r}"
        n = self.names.get(id(v))
        if n is None:
            return f"foreign:{type(v).__name__}"
        if isinstance(v, Opaque):
            return f"{n}opaque"
        try:
            return f"{n}{type(v).__name__}{v!r}"[:80]
        except Exception:
            return n


DOMAINS = {
    'ints': ['int'],
    'numeric': ['int', 'bool', 'float', 'nan', 'none'],
    'text': ['str', 'bytes', 'none', 'int'],
    'containers': ['list', 'tuple', 'dict', 'int', 'none', 'set', 'odict'],
    'dates': ['date', 'datetime', 'none', 'int'],
    'mixed': ['int', 'bool', 'float', 'nan', 'str', 'bytes', 'none', 'date', 'datetime', 'list', 'tuple', 'dict', 'opaque'],
}


def gen_value(rng, domain, depth=0):
    k = rng.choice(DOMAINS[domain])
    if k in ('list', 'tuple', 'dict'):
        if depth >= 2:
            return {'k': 'int', 'x': rng.randint(0, 3)}
        inner = 'mixed' if domain == 'mixed' and rng.random() < 0.3 else 'numeric'
        spec = {'k': k, 'x': [gen_value(rng, inner if depth else rng.choice(['numeric', 'containers']), depth + 1)
                              for _ in range(rng.randint(0, 2))]}
        if k == 'dict':
            # same-sized dictionaries must be able to differ in their keys only
            spec['keys'] = rng.sample(['a', 'b', 'c'], len(spec['x']))
            if spec['x'] and rng.random() < 0.5:
                spec['x'] = [{'k': 'int', 'x': 1} for _ in spec['x']]
        return spec
    if k == 'set':
        # equal sets whose elements were inserted (and are iterated) in different orders: 0, 8 and 16 collide in a small table
        return {'k': 'set', 'x': rng.sample([0, 8, 16], rng.choice([2, 2, 3]))}
    if k == 'odict':
        # the same items in a different order are a different OrderedDict
        return {'k': 'odict', 'x': rng.sample(['a', 'b'], 2)}
    if k in ('int', 'date', 'datetime'):
        return {'k': k, 'x': rng.randint(0, 3)}
    if k == 'bool':
        return {'k': k, 'x': rng.random() < 0.5}
    if k == 'float':
        return {'k': k, 'x': rng.choice([0.0, 1.0, 2.0, 0.5])}
    if k in ('str', 'bytes'):
        return {'k': k, 'x': rng.choice(['a', 'b', ''])}
    if k == 'opaque':
        return {'k': k, 'x': rng.randint(0, 9)}
    return {'k': k}


# ----------------------------------------------------------------------------- interpreter shared by both engines

class Host:
    """Runs the program against one engine and records the delivery history."""

    def __init__(self, case, engine_cls, stats=None):
        self.case = case
        self.cfg = case['cfg']
        self.vals = Values()
        self.trace = []
        self.calls = 0
        self.stats = stats
        self.wspecs = []           # all watcher specs ever registered (index = wid)
        self.whandles = {}         # wid -> engine handle
        self.removed = set()
        self.fresh = 0
        self.amb_seg = None
        self.engine = engine_cls(self)
        self.objs = self.engine.build(self.cfg)      # list of oids
        self.open_uctx = {}

    # -- callbacks (called by the engine for every delivery) -----------------------------
    def on_enter(self, w, events, optional=()):
        """w: object with .wid/.script ; events: list of rendered tuples"""
        self.trace.append(('ENTER', w.wid, events, self.engine.snapshot(w.obj), tuple(sorted(optional))))
        self.calls += 1
        if self.calls > MAX_CALLS:
            self.trace.append(('CAP',))
            return
        for act in w.script:
            self.action(w, act)

    def on_exit(self, w):
        self.trace.append(('EXIT', w.wid))

    def fresh_value(self, wid):
        self.fresh += 1
        return self.vals.reg(f"c{wid}.{self.fresh}")

    def action(self, w, act):
        a = act['a']
        eng = self.engine
        o = self.objs[act.get('o', 0) % len(self.objs)]
        if a == 'set':
            eng.set(o, PN[act['p'] % self.cfg['n_params']], self.fresh_value(w.wid))
        elif a == 'update':
            eng.update(o, [(PN[p % self.cfg['n_params']], self.fresh_value(w.wid)) for p in act['ps']])
        elif a == 'trigger' and self.cfg.get('dset'):
            eng.set(o, PN[act['ps'][0] % self.cfg['n_params']], self.fresh_value(w.wid))
        elif a == 'trigger':
            eng.trigger(o, [PN[p % self.cfg['n_params']] for p in act['ps']])
        elif a == 'unwatch':
            self.unwatch(act['w'])
        elif a == 'unwatch_self':
            # a one-shot callback: it removes its own registration while it runs; every other watcher is still owed its call
            for reg, h in sorted(self.whandles.items()):
                if h.wid == w.wid and h.obj == w.obj and reg not in self.removed:
                    self.removed.add(reg)
                    self.engine.unwatch(h)
                    break

    # -- watcher management ---------------------------------------------------------------------
    def watch(self, spec):
        wid = len(self.wspecs)
        if spec.get('dup') is not None and wid > 0:
            # the very same callback registered a second time with identical options: both registrations count
            target = spec['dup'] % wid
            while self.wspecs[target].get('dup_of') is not None:
                target = self.wspecs[target]['dup_of']
            spec = dict(self.wspecs[target], dup_of=target)
        self.wspecs.append(spec)
        oid = self.objs[spec['o'] % len(self.objs)]
        params = []
        for p in spec['ps']:
            n = 'e' if p == 'e' else PN[p % self.cfg['n_params']]
            if n not in params:
                params.append(n)
        h = self.engine.watch(wid, oid, params, spec)
        self.whandles[wid] = h
        return wid

    def unwatch(self, wi):
        live = [w for w in sorted(self.whandles) if w not in self.removed]
        if not live:
            return
        wid = live[wi % len(live)]
        self.removed.add(wid)
        self.engine.unwatch(self.whandles[wid])

    # -- top-level program ---------------------------------------------------------------------------
    def run(self):
        ks = self.objs.index('KS') if 'KS' in self.objs else None
        late = []
        for spec in self.cfg['watchers']:
            if ks is not None and spec['o'] % len(self.objs) == ks and not self.cfg.get('ks_early'):
                late.append(spec)       # registered once KS owns its Parameters (before that they are K's: one table either way)
            else:
                self.watch(spec)
        if 'KS' in self.objs:
            # KS only inherits the Parameters of K: its first class-level assignments copy them (the watcher table stays K's)
            self.trace.append(('OP', -1, 'prelude'))
            try:
                for n in list(PN[:self.cfg['n_params']]) + (['e'] if self.cfg.get('event') else []):
                    self.engine.inherit('KS', 'K', n)      # until then KS reads K's Parameter: value and watchers
                    self.engine.set('KS', n, False if n == 'e' else None)
            except Exception as e:      # noqa
                self.trace.append(('EXC', type(e).__name__, str(e)[:120]))
            self.trace.append(('VALS', tuple(self.engine.snapshot(o) for o in self.objs)))
            if self.engine.stop():
                self.amb_seg = 0        # the statement stopped deciding inside the prelude already
        for spec in late:
            self.watch(spec)
        for i, op in enumerate(self.case['ops']):
            if self.amb_seg is not None:
                break
            self.trace.append(('OP', i, op['op']))
            try:
                self.top(op)
            except Exception as e:      # noqa
                self.trace.append(('EXC', type(e).__name__, str(e)[:120]))
            self.trace.append(('VALS', tuple(self.engine.snapshot(o) for o in self.objs)))
            self.event_check(i, op)
            if self.engine.stop():
                self.amb_seg = sum(1 for e in self.trace if e[0] == 'OP') - 1      # index of the segment it happened in
                break
        # close whatever is still open, innermost first, so the run ends outside every context
        self.trace.append(('OP', len(self.case['ops']), 'closeall'))
        try:
            for o in self.objs:
                while self.engine.ctx_close(o):
                    pass
        except Exception as e:      # noqa
            self.trace.append(('EXC', type(e).__name__, str(e)[:120]))
        self.trace.append(('VALS', tuple(self.engine.snapshot(o) for o in self.objs)))

    def event_check(self, i, op):
        # The True of an Event parameter is transient: whatever the operation was (assignment, update, trigger, inside or outside
        # a batch, failing or not) and whether or not the delivery history is still decided by the statement, no Event parameter
        # reads True once the operation has returned (seeded change C04-m14).  Checked on the library's side only.
        ev = getattr(self.engine, 'event_values', None)
        if ev is None or self.case['prop'] != 'C04':
            return
        for oid, v in ev():
            if v is not False:
                self.engine.problems.append(('event_transient', f"after operation {i} ({op['op']}) the Event parameter {oid}.e reads {v!r}: "
                                             f"the True of an Event parameter is transient"))

    def top(self, op):
        eng = self.engine
        cfg = self.cfg
        k = op['op']
        o = self.objs[op.get('o', 0) % len(self.objs)]
        np_ = cfg['n_params']
        if cfg.get('dset') and k in ('trigger', 'trigger_bad', 'event'):
            # (in these runs) the default of the instances' class is assigned instead: instances that never set the parameter
            # show the new value from now on, silently; their next assignment is judged against it
            self.dcount = getattr(self, 'dcount', 0) + 1
            ps = [p for p in op.get('ps', []) if p != 'e'] or [0]
            eng.dset(PN[ps[0] % np_], self.vals.mk({'k': 'int', 'x': 100 + self.dcount} if self.dcount % 3 else {'k': 'none'}))
            return
        if k == 'set':
            eng.set(o, PN[op['p'] % np_], self.vals.mk(op['v']))
        elif k == 'same':
            name = PN[op['p'] % np_]
            cur = eng.get(o, name)
            eng.set(o, name, cur if op['how'] == 'same' else self.vals.equal_copy(cur))
        elif k == 'update':
            items, seen = [], set()
            for p, v in op['items']:
                n = 'e' if p == 'e' else PN[p % np_]
                if n not in seen:
                    seen.add(n)
                    items.append((n, True if p == 'e' else self.vals.mk(v)))
            eng.update(o, items)
        elif k == 'update_bad' and op.get('nm'):
            eng.update_notmapping(o)        # an argument that is no mapping: the call fails as a whole, nothing else happens
        elif k == 'update_bad':
            items, seen = [], set()
            for p, v in op['items']:
                n = PN[p % np_]
                if n not in seen:
                    seen.add(n)
                    items.append((n, self.vals.mk(v)))
            eng.update_bad(o, items, op['at'] % (len(items) + 1))
        elif k == 'raise_set':
            # a failing callback that runs after every other one: the other watchers are served as usual, the caller sees
            # the exception, and the object keeps dispatching normally afterwards
            eng.raise_set(o, PN[op['p'] % np_], self.vals.mk(op['v']), op['q'])
        elif k in ('trigger', 'trigger_bad'):
            names = []
            for p in op['ps']:
                n = 'e' if p == 'e' else PN[p % np_]
                if n not in names:
                    names.append(n)
            if k == 'trigger_bad':
                # a name that is no parameter: the call fails as a whole, nothing is triggered and nothing queued is lost
                eng.trigger_bad(o, names, op['at'] % (len(names) + 1))
            else:
                eng.trigger(o, names)
        elif k == 'event':
            eng.set(o, 'e', True)
        elif k == 'slot':
            eng.slotset(o, PN[op['p'] % np_], 'doc', self.vals.mk(op['v']))
        elif k == 'watch':
            self.watch(op['w'])
        elif k == 'unwatch':
            self.unwatch(op['w'])
        elif k == 'open':
            eng.ctx_open(o, op['kind'])
        elif k == 'close':
            eng.ctx_close(o, bool(op.get('failing')))


# ----------------------------------------------------------------------------- engines

class ModelEngine:
    def __init__(self, host):
        self.host = host
        self.m = DispatchModel(self)
        self.slot_objs = set()

    def build(self, cfg):
        oids = [f"I{i}" for i in range(cfg['n_inst'])] + (['K'] if cfg.get('cls_obj') else []) + (['KS'] if cfg.get('cls_obj') and cfg.get('cls_sub') else [])
        for oid in oids:
            vals = {n: None for n in PN[:cfg['n_params']]}
            vals['e'] = False
            self.m.add_obj(oid, vals, event_params=('e',))
        if 'KS' in oids:
            self.m.share_watchers('KS', 'K')
        if cfg.get('dset'):
            # the instances hold no value of their own to begin with: they show the defaults of their class, which change
            self.dvals = {n: None for n in PN[:cfg['n_params']]}
            self.dvals['e'] = False
            for i in range(cfg['n_inst']):
                self.m.objs[f"I{i}"].values = _Inheriting(self.dvals)
        return oids

    def dset(self, name, v):
        self.dvals[name] = v

    def stop(self):
        return self.m.ambiguous is not None

    def snapshot(self, oid):
        o = self.m.objs[oid]
        return tuple(self.host.vals.r(o.values[n]) for n in sorted(o.values))

    def get(self, oid, name):
        return self.m.objs[oid].values[name]

    # deliveries from the model
    def on_enter(self, w, events, optional):
        r = self.host.vals.r
        evs = []
        for e in events:
            typ = '?' if e.type_dc else ('triggered' if e.triggered else ('changed' if w.onlychanged else 'set'))
            if typ == 'triggered' and e.tdef:
                typ = 'triggered~'      # triggered while deferring: see known finding C04.type_trigger_deferred
            new = '?' if e.new_dc else (r(e.new) if not e.has_alt else (r(e.new), r(e.new_alt)))
            # (a class-level watcher hears of assignments on the other classes of its family: the event names the class assigned)
            evs.append((e.name, e.what, '?' if e.old_dc else r(e.old), new, typ, 'own' if self.m.cur_src == w.obj else 'other'))
        self.host.on_enter(w, evs, optional)

    def on_exit(self, w):
        self.host.on_exit(w)

    def watch(self, wid, oid, params, spec):
        if spec.get('dup_of') is not None:
            wid = spec['dup_of']
        w = MWatcher(wid, oid, params, spec.get('what', 'value'), spec['oc'], spec['q'], spec['prec'], spec['mode'], spec['script'])
        self.m.watch(w)
        return w

    def inherit(self, oid, src, name):
        self.m.inherit_watchers(oid, src, name)

    def update_bad(self, oid, items, at):
        self.m.update(oid, items, fail_at=at)

    def raise_set(self, oid, name, value, queued):
        self.m.set(oid, name, value)
        raise ModelReject()

    def update_notmapping(self, oid):
        raise ModelReject()

    def trigger_bad(self, oid, names, at):
        raise ModelReject()

    def unwatch(self, w):
        self.m.unwatch(w)

    def set(self, oid, name, v):
        self.m.set(oid, name, v)

    def slotset(self, oid, name, slot, v):
        self.m.slotset(oid, name, slot, v)

    def update(self, oid, items):
        # (an Event parameter among the keys is decided by the model inside an open context too: held True until the call returns)
        self.m.update(oid, items)

    def trigger(self, oid, names):
        o = self.m.objs[oid]
        if o.batch and 'e' in names:
            self.m.ambiguous = self.m.ambiguous or 'Event parameter triggered while deferring'
        self.m.trigger(oid, names)

    def ctx_open(self, oid, kind):
        self.m.ctx_open(oid, kind)

    def ctx_close(self, oid, failing=False):
        return self.m.ctx_close(oid)


class _RW:
    __slots__ = ('wid', 'obj', 'script', 'handle', 'spec')


class RealEngine:
    def __init__(self, host):
        self.host = host
        self.ctx = {}
        self.problems = []
        self.cbs = {}

    def build(self, cfg):
        import param
        self.param = param
        ns = {n: param.Parameter(default=None) for n in PN[:cfg['n_params']]}
        ns['e'] = param.Event()
        D = type('D', (param.Parameterized,), ns)
        self.D = D
        self.objs = {}
        oids = []
        for i in range(cfg['n_inst']):
            self.objs[f"I{i}"] = D()
            oids.append(f"I{i}")
        if cfg.get('cls_obj'):
            ns2 = {n: param.Parameter(default=None) for n in PN[:cfg['n_params']]}
            ns2['e'] = param.Event()
            self.objs['K'] = type('E', (param.Parameterized,), ns2)
            oids.append('K')
            if cfg.get('cls_sub'):
                self.objs['KS'] = type('E2', (self.objs['K'],), {})
                oids.append('KS')
        self.names = sorted(list(PN[:cfg['n_params']]) + ['e'])
        return oids

    def stop(self):
        return False

    def event_values(self):
        return [(oid, getattr(o, 'e')) for oid, o in self.objs.items()]

    def snapshot(self, oid):
        o = self.objs[oid]
        return tuple(self.host.vals.r(getattr(o, n)) for n in self.names)

    def get(self, oid, name):
        return getattr(self.objs[oid], name)

    def watch(self, wid, oid, params, spec):
        o = self.objs[oid]
        w = _RW()
        w.wid, w.obj, w.script, w.spec = (spec['dup_of'] if spec.get('dup_of') is not None else wid), oid, spec['script'], spec
        if spec.get('dup_of') is not None:
            cb, kwmode = self.cbs[spec['dup_of']]
            if kwmode:
                w.handle = o.param.watch_values(cb, list(params), onlychanged=spec['oc'], queued=spec['q'], precedence=spec['prec'])
            else:
                w.handle = o.param.watch(cb, list(params), what=spec.get('what', 'value'), onlychanged=spec['oc'], queued=spec['q'],
                                         precedence=spec['prec'])
            return w
        r = self.host.vals.r
        is_cls = isinstance(o, type)
        what = spec.get('what', 'value')

        def cb_args(*events):
            evs = []
            for e in events:
                ok = (e.obj is o) if what == 'value' else True
                src = 'own' if ok else '!obj'
                if is_cls and what == 'value' and not ok and isinstance(e.obj, type) and (issubclass(e.obj, o) or issubclass(o, e.obj)):
                    # the classes of a hierarchy that share a Parameter declaration share its table of class-level
                    # watchers: the event must then name the class that was assigned
                    src = 'other'
                evs.append((e.name, e.what, r(e.old), r(e.new), e.type, src))
            self.host.on_enter(w, evs)
            self.host.on_exit(w)

        def cb_kwargs(**kw):
            evs = [(n, 'value', '?', r(v), '?', '?') for n, v in kw.items()]
            self.host.on_enter(w, evs)
            self.host.on_exit(w)

        if spec['mode'] == 'kwargs' and what == 'value':
            self.cbs[wid] = (cb_kwargs, True)
            w.handle = o.param.watch_values(cb_kwargs, list(params), onlychanged=spec['oc'], queued=spec['q'], precedence=spec['prec'])
        else:
            self.cbs[wid] = (cb_args, False)
            w.handle = o.param.watch(cb_args, list(params), what=what, onlychanged=spec['oc'], queued=spec['q'], precedence=spec['prec'])
        return w

    def update_notmapping(self, oid):
        self.objs[oid].param.update(5)

    def trigger_bad(self, oid, names, at):
        names = list(names)
        names.insert(at, 'no_such_parameter')
        self.objs[oid].param.trigger(*names)

    def raise_set(self, oid, name, value, queued):
        o = self.objs[oid]

        def failing(*events):
            raise RuntimeError('callback failed')
        h = o.param.watch(failing, [name], onlychanged=False, queued=queued, precedence=10 ** 6)
        try:
            setattr(o, name, value)
        finally:
            o.param.unwatch(h)

    def inherit(self, oid, src, name):
        pass        # the library copies the Parameter (and its watcher table) on the first class-level assignment

    def update_bad(self, oid, items, at):
        d = {}
        for i, (k, v) in enumerate(items):
            if i == at:
                d['no_such_parameter'] = 1
            d[k] = v
        if at >= len(items):
            d['no_such_parameter'] = 1
        self.objs[oid].param.update(d)

    def unwatch(self, w):
        self.objs[w.obj].param.unwatch(w.handle)

    def set(self, oid, name, v):
        setattr(self.objs[oid], name, v)

    def dset(self, name, v):
        setattr(self.D, name, v)        # the class of the instances (nobody watches it)

    def slotset(self, oid, name, slot, v):
        setattr(self.objs[oid].param[name], slot, v)

    def update(self, oid, items):
        self.objs[oid].param.update(dict(items))

    def trigger(self, oid, names):
        self.objs[oid].param.trigger(*names)

    def ctx_open(self, oid, kind):
        pz = self.param.parameterized
        cm = pz.batch_call_watchers(self.objs[oid]) if kind == 'batch' else pz.discard_events(self.objs[oid])
        cm.__enter__()
        self.ctx.setdefault(oid, []).append(cm)

    def ctx_close(self, oid, failing=False):
        st = self.ctx.get(oid)
        if not st:
            return False
        if failing:
            # the body of the context is left by an exception: an exit like any other
            try:
                st.pop().__exit__(RuntimeError, RuntimeError('the body of the context failed'), None)
            except RuntimeError:
                pass
        else:
            st.pop().__exit__(None, None, None)
        return True


# ----------------------------------------------------------------------------- comparison

def split_ops(trace):
    segs, cur = [], None
    for e in trace:
        if e[0] == 'OP':
            cur = [e]
            segs.append(cur)
        elif cur is not None:
            cur.append(e)
    return segs


def compare(model_trace, real_trace, prop_of_op, tolerated=frozenset(), known=None):
    """Return (clause_suffix, op_index, detail) for the first disagreement, else None."""
    known = [] if known is None else known
    ms, rs = split_ops(model_trace), split_ops(real_trace)
    for si, mseg in enumerate(ms):
        if si >= len(rs):
            return ('history', si, 'real history ends early')
        rseg = rs[si]
        opi = mseg[0][1]
        P = prop_of_op(opi)
        m_enter = [e for e in mseg if e[0] == 'ENTER']
        r_enter = [e for e in rseg if e[0] == 'ENTER']
        m_exc = [e for e in mseg if e[0] == 'EXC']
        r_exc = [e for e in rseg if e[0] == 'EXC']
        if r_exc and not m_exc:
            return (f"{P}.exception", opi, f"operation {mseg[0][2]} raised {r_exc[0][1]}: {r_exc[0][2]}")
        if m_exc and not r_exc:
            return (f"{P}.exception", opi, f"operation {mseg[0][2]} was expected to be rejected but did not raise")
        mw = sorted(e[1] for e in m_enter)
        rw = sorted(e[1] for e in r_enter)
        if mw != rw:
            extra = [w for w in set(rw) if rw.count(w) > mw.count(w)]
            missing = [w for w in set(mw) if mw.count(w) > rw.count(w)]
            return (f"{P}.once", opi, f"operation {mseg[0][2]}: expected deliveries to watchers {mw}, got {rw} "
                                      f"(missing {sorted(missing)}, extra {sorted(extra)})")
        mstruct = [(e[0], e[1]) for e in mseg if e[0] in ('ENTER', 'EXIT')]
        rstruct = [(e[0], e[1]) for e in rseg if e[0] in ('ENTER', 'EXIT')]
        if mstruct != rstruct:
            return (f"{P}.order", opi, f"operation {mseg[0][2]}: expected call structure {fmt_struct(mstruct)}, got {fmt_struct(rstruct)}")
        for me, re_ in zip(m_enter, r_enter):
            optional = set(me[4])
            mev = {e[0]: e for e in me[2]}
            rev = {e[0]: e for e in re_[2]}
            for n, e in mev.items():
                if n not in rev:
                    return (f"{P}.events", opi, f"w{me[1]} expected an event for {n}, got events for {sorted(rev)}")
                g = rev[n]
                if g[1] != e[1]:
                    return (f"{P}.payload", opi, f"w{me[1]} event {n}: what={g[1]} expected {e[1]}")
                if e[2] != '?' and g[2] != '?' and g[2] != e[2]:
                    return (f"{P}.payload", opi, f"w{me[1]} event {n}: old={g[2]} expected {e[2]}")
                if e[3] != '?' and g[3] != e[3] and not (isinstance(e[3], tuple) and g[3] in e[3]):
                    return (f"{P}.payload", opi, f"w{me[1]} event {n}: new={g[3]} expected {e[3]}")
                if g[5] != '?' and g[5] != e[5]:
                    return (f"{P}.payload", opi, f"w{me[1]} event {n}: names {g[5]} object, expected {e[5]} (own = the object the watcher "
                                                 f"was registered on, other = another class sharing the Parameter declaration)")
                if e[4] == 'triggered~':
                    if g[4] not in ('?', 'triggered'):
                        d = (f"w{me[1]} event {n}: type={g[4]}, expected 'triggered' (param.trigger called while the object "
                             f"was deferring; the flag is cleared before the queue is flushed)")
                        if 'C04.type_trigger_deferred' in tolerated and g[4] in ('changed', 'set'):
                            known.append(('C04.type_trigger_deferred', d))
                        else:
                            return ('C04.type_trigger_deferred', opi, d)
                elif g[4] != '?' and e[4] != '?' and g[4] != e[4]:
                    return (f"{P}.type", opi, f"w{me[1]} event {n}: type={g[4]} expected {e[4]}")
            for n in rev:
                if n not in mev and n not in optional:
                    return (f"{P}.events", opi, f"w{me[1]} got an unexpected event for {n} (expected {sorted(mev)})")
                if n not in mev:
                    # the parameter was assigned in the batch but had no qualifying event for THIS watcher (changes-only, equal
                    # value): some other watcher's event for it is handed over as well
                    d = (f"w{me[1]} (changes-only) was handed an event for {n}, which was assigned an equal value in the batch and so had no "
                         f"qualifying event for it (its qualifying parameters: {sorted(mev)}); the event exists because another watcher "
                         f"of {n} is not changes-only")
                    if 'C04.extra_event_for_unqualified_parameter' in tolerated:
                        known.append(('C04.extra_event_for_unqualified_parameter', d))
                    else:
                        return ('C04.extra_event_for_unqualified_parameter', opi, d)
            if [n for n in rev if n in mev] != [n for n in mev]:
                pass    # order of events inside one call is not specified
            if me[3] != re_[3]:
                return (f"{P}.visible", opi, f"w{me[1]} saw object state {re_[3]} at entry, expected {me[3]}")
        mv = [e for e in mseg if e[0] == 'VALS']
        rv = [e for e in rseg if e[0] == 'VALS']
        if mv and rv and mv[-1] != rv[-1]:
            return (f"{P}.values", opi, f"after operation {mseg[0][2]} values are {rv[-1][1]}, expected {mv[-1][1]}")
    return None


def fmt_struct(s):
    out, depth = [], 0
    for k, w in s:
        if k == 'ENTER':
            out.append(f"{'(' * 1}w{w}")
        else:
            out.append(')')
    return ''.join(out)


# ----------------------------------------------------------------------------- the world

class DispatchWorld:
    name = 'dispatch'
    props = ('C03', 'C04')
    levels = {'C03': 'exploration', 'C04': 'exploration'}
    chunk = 400
    budget = {'quick': dict(runs=24000, wall=180.0), 'thorough': dict(runs=1200000, wall=900.0)}
    time_unit = 'n/a: logical steps only (no clock in synchronous dispatch)'
    state_measure = 'distinct (operation kind, deferring?, watcher-call structure) triples per top-level operation'
    components = {
        'real': ['param.parameterized: Parameter.__set__/__setattr__, Parameters._call_watcher/_batch_call_watchers/_update/trigger/'
                 'watch/unwatch, batch_call_watchers, discard_events, Comparator; param.Event'],
        'stub': ['user callbacks (scripted harness callbacks that log, assign, update, trigger and unwatch re-entrantly)',
                 'reference dispatcher sim/models/dispatch_model.py (oracle)'],
    }
    rules = {
        'C03': 'case = generated watcher configuration (1-6 watchers; parameter subsets; onlychanged/queued/precedence; args vs kwargs; '
               'value vs slot; instance vs class) + program of set / same-object set / equal-value set / update / trigger / slot set / '
               'watch / unwatch with scripted re-entrant callbacks (acyclic cascades); non-trivial = at least one delivery happened '
               'inside another callback or a changes-only filter decision was exercised; distinct = distinct delivery-structure strings.',
        'C04': 'as C03 plus open/close of batch_call_watchers and discard_events nested to depth 4, trigger and update inside them, repeated '
               'assignments to one parameter; non-trivial = at least one delivery was deferred to a context exit; distinct = distinct '
               'delivery-structure strings.',
    }
    assumptions = {'*': ['reference dispatcher mirrors the property statement; zones the statement leaves open end the comparison '
                         '(counted as ambiguous_runs): watcher (un)registered while its event is in flight, deferred events flushed by a '
                         'nested assignment, equal values of unlisted types, Event parameter triggered while deferring',
                         'callbacks are harness code; cascades are acyclic by construction']}

    # -- generation -------------------------------------------------------------------------------
    def gen_watcher(self, rng, cfg, simple=False):
        np_ = cfg['n_params']
        k = 1 if rng.random() < 0.6 else rng.randint(1, np_)
        ps = sorted(rng.sample(range(np_), k))
        what = 'value'
        if cfg.get('slots') and rng.random() < 0.15:
            what = 'doc'
        spec = {'o': rng.randrange(cfg['n_inst'] + (1 if cfg.get('cls_obj') else 0) + (1 if cfg.get('cls_obj') and cfg.get('cls_sub') else 0)),
                'ps': ps, 'what': what,
                'oc': rng.random() < 0.6, 'q': rng.random() < cfg['p_queued'],
                'prec': 0 if what != 'value' else rng.choice([0, 0, 1, 2, 3]),
                'mode': 'kwargs' if (what == 'value' and rng.random() < 0.15) else 'args', 'script': []}
        if cfg.get('event') and what == 'value' and rng.random() < 0.2:
            spec['ps'] = spec['ps'] + ['e']
        top = max(ps)
        if not simple and rng.random() < 0.12:
            spec['script'].append({'a': 'unwatch_self'})
        if not simple and rng.random() < cfg['p_script'] and top + 1 < np_:
            n_act = 1 if rng.random() < 0.7 else 2
            for _ in range(n_act):
                a = weighted(rng, [('set', 6), ('update', 2), ('trigger', 1.5), ('unwatch', 0.7)])
                tgt = spec['o'] if rng.random() < 0.8 else rng.randrange(cfg['n_inst'])
                hi = list(range(top + 1, np_))
                if a == 'set':
                    spec['script'].append({'a': 'set', 'o': tgt, 'p': rng.choice(hi)})
                elif a == 'update':
                    spec['script'].append({'a': 'update', 'o': tgt, 'ps': sorted(set(rng.choice(hi) for _ in range(2)))})
                elif a == 'trigger':
                    spec['script'].append({'a': 'trigger', 'o': tgt, 'ps': [rng.choice(hi)]})
                else:
                    spec['script'].append({'a': 'unwatch', 'w': rng.randint(0, 5)})
        return spec

    def gen(self, rng, prop, tier, avoid):
        big = tier == 'thorough'
        cfg = {
            'n_inst': rng.choice([1, 1, 2]),
            'n_params': rng.choice([2, 3, 4]),
            'cls_obj': rng.random() < 0.25,
            'cls_sub': rng.random() < 0.5,
            'ks_early': rng.random() < 0.5,
            'dset': rng.random() < 0.2,
            'domain': rng.choice(list(DOMAINS)),
            'p_queued': rng.choice([0.0, 0.15, 0.4]),
            'p_script': rng.choice([0.0, 0.3, 0.6]),
            'slots': rng.random() < 0.3,
            'event': rng.random() < 0.4,
            'ctx': prop != 'C03',
            'avoid': sorted(avoid),
        }
        cfg['watchers'] = [self.gen_watcher(rng, cfg) for _ in range(rng.randint(1, 6))]
        if rng.random() < 0.2:
            cfg['watchers'].append({**cfg['watchers'][0], 'dup': rng.randrange(len(cfg['watchers']))})
        n_ops = min(60 if big else 40, 2 + int(rng.expovariate(1 / (16.0 if big else 10.0))))
        nobj = cfg['n_inst'] + (1 if cfg['cls_obj'] else 0) + (1 if cfg['cls_obj'] and cfg['cls_sub'] else 0)
        ops = []
        depth = [0] * nobj
        trig_in_batch_ok = 'trigger_in_batch' not in avoid
        for _ in range(n_ops):
            o = rng.randrange(nobj)
            table = [('set', 8), ('same', 3), ('update', 3), ('update_bad', 1 if cfg['ctx'] else 0.3), ('raise_set', 0 if cfg['ctx'] else 0.7),
                     ('trigger', 2), ('trigger_bad', 0.5), ('slot', 1 if cfg['slots'] else 0),
                     ('event', 1 if cfg['event'] else 0), ('watch', 1), ('unwatch', 1)]
            if cfg['ctx']:
                table += [('open', 3 if depth[o] < 4 else 0), ('close', 3 if depth[o] else 0)]
            k = weighted(rng, table)
            if k == 'trigger' and depth[o] and not trig_in_batch_ok:
                k = 'set'
            if k == 'event' and depth[o]:
                k = 'set'
            if k == 'set':
                ops.append({'op': 'set', 'o': o, 'p': rng.randrange(cfg['n_params']), 'v': gen_value(rng, cfg['domain'])})
            elif k == 'same':
                ops.append({'op': 'same', 'o': o, 'p': rng.randrange(cfg['n_params']), 'how': rng.choice(['same', 'equal'])})
            elif k == 'update':
                ops.append({'op': 'update', 'o': o, 'items': [[rng.randrange(cfg['n_params']), gen_value(rng, cfg['domain'])]
                                                             for _ in range(rng.randint(1, 3))]})
                if cfg['event'] and rng.random() < 0.2:
                    ops[-1]['items'].insert(rng.randint(0, len(ops[-1]['items'])), ['e', {'k': 'bool', 'x': True}])
            elif k == 'raise_set':
                ops.append({'op': 'raise_set', 'o': o, 'p': rng.randrange(cfg['n_params']), 'v': gen_value(rng, cfg['domain']), 'q': rng.random() < 0.6})
            elif k == 'update_bad':
                items = [[rng.randrange(cfg['n_params']), gen_value(rng, cfg['domain'])] for _ in range(rng.randint(1, 3))]
                ops.append({'op': 'update_bad', 'o': o, 'items': items, 'at': rng.randint(0, 3)})
                if rng.random() < 0.25:
                    ops[-1]['nm'] = True
            elif k == 'trigger_bad':
                ops.append({'op': 'trigger_bad', 'o': o, 'ps': [rng.randrange(cfg['n_params']) for _ in range(rng.randint(0, 2))], 'at': rng.randint(0, 2)})
            elif k == 'trigger':
                ps = [rng.randrange(cfg['n_params']) for _ in range(rng.randint(1, 2))]
                if cfg['event'] and rng.random() < 0.3:
                    ps.append('e')          # (inside a context the delivery history is undecided from here, the values are not)
                ops.append({'op': 'trigger', 'o': o, 'ps': ps})
            elif k == 'event':
                ops.append({'op': 'event', 'o': o})
            elif k == 'slot':
                ops.append({'op': 'slot', 'o': rng.randrange(cfg['n_inst']), 'p': rng.randrange(cfg['n_params']),
                            'v': {'k': 'str', 'x': rng.choice(['a', 'b', ''])}})
            elif k == 'watch':
                w = self.gen_watcher(rng, cfg)
                if rng.random() < 0.2:
                    w['dup'] = rng.randint(0, 6)
                ops.append({'op': 'watch', 'w': w})
            elif k == 'unwatch':
                ops.append({'op': 'unwatch', 'w': rng.randint(0, 6)})
            elif k == 'open':
                depth[o] += 1
                ops.append({'op': 'open', 'o': o, 'kind': weighted(rng, [('batch', 3), ('discard', 1)])})
            elif k == 'close':
                depth[o] -= 1
                ops.append({'op': 'close', 'o': o, 'failing': rng.random() < 0.25})
        return {'cfg': cfg, 'ops': ops}

    # -- shrink support ------------------------------------------------------------------------------
    def skeleton(self, case):
        sk = ['W' + ('q' if w['q'] else '') + ('c' if w['oc'] else '') + (':' + '+'.join(a['a'] for a in w['script']) if w['script'] else '')
              for w in case['cfg']['watchers']]
        for op in case['ops']:
            k = op['op']
            if k in ('open',):
                sk.append(f"open:{op['kind']}")
            elif k == 'same':
                sk.append(f"same:{op['how']}")
            else:
                sk.append(k)
        return sk

    def simplify(self, case):
        cfg = case['cfg']
        ws = cfg['watchers']
        for i in range(len(ws) - 1, -1, -1):
            # dropping a watcher renumbers the later ones; unwatch indexes are modulo live watchers, so this stays meaningful
            yield {**case, 'cfg': {**cfg, 'watchers': ws[:i] + ws[i + 1:]}}
        for i, w in enumerate(ws):
            for key, simple in (('script', []), ('q', False), ('mode', 'args'), ('prec', 0), ('what', 'value'), ('oc', False)):
                if w[key] != simple:
                    yield {**case, 'cfg': {**cfg, 'watchers': ws[:i] + [{**w, key: simple}] + ws[i + 1:]}}
            if len(w['ps']) > 1:
                for j in range(len(w['ps'])):
                    yield {**case, 'cfg': {**cfg, 'watchers': ws[:i] + [{**w, 'ps': w['ps'][:j] + w['ps'][j + 1:]}] + ws[i + 1:]}}
            if len(w['script']) > 1:
                for j in range(len(w['script'])):
                    yield {**case, 'cfg': {**cfg, 'watchers': ws[:i] + [{**w, 'script': w['script'][:j] + w['script'][j + 1:]}] + ws[i + 1:]}}
        for key, simple in (('n_inst', 1), ('cls_obj', False), ('n_params', 2), ('n_params', 3)):
            if cfg[key] != simple:
                yield {**case, 'cfg': {**cfg, key: simple}}
        ops = case['ops']
        for i, op in enumerate(ops):
            if op['op'] in ('set',) and op['v'] != {'k': 'int', 'x': 1}:
                yield {**case, 'ops': ops[:i] + [{**op, 'v': {'k': 'int', 'x': 1}}] + ops[i + 1:]}
            if op['op'] == 'update' and len(op['items']) > 1:
                for j in range(len(op['items'])):
                    yield {**case, 'ops': ops[:i] + [{**op, 'items': op['items'][:j] + op['items'][j + 1:]}] + ops[i + 1:]}
            if op['op'] == 'trigger' and len(op['ps']) > 1:
                for j in range(len(op['ps'])):
                    yield {**case, 'ops': ops[:i] + [{**op, 'ps': op['ps'][:j] + op['ps'][j + 1:]}] + ops[i + 1:]}
            if op.get('o'):
                yield {**case, 'ops': ops[:i] + [{**op, 'o': 0}] + ops[i + 1:]}

    # -- execution --------------------------------------------------------------------------------------
    def run(self, case):
        out = Outcome()
        prop = case['prop']
        mh = Host(case, ModelEngine)
        mh.run()
        rh = Host(case, RealEngine)
        rh.run()
        amb = mh.engine.m.ambiguous
        mtrace, rtrace = mh.trace, rh.trace
        if amb is not None:
            out.stats['ambiguous_runs'] += 1
            out.stats['ambiguous: ' + amb] += 1
            # compare only the operations before the one in which the statement stopped deciding
            nseg = mh.amb_seg if mh.amb_seg is not None else sum(1 for e in mtrace if e[0] == 'OP') - 1
            mtrace = _truncate(mtrace, nseg)
            rtrace = _truncate(rtrace, nseg)
        # which property does an operation belong to: C04 while any context is open or for trigger/update operations
        ctx_ops = set()
        depth = 0
        for i, op in enumerate(case['ops']):
            if op['op'] == 'open':
                depth += 1
            if depth or op['op'] in ('trigger', 'trigger_bad', 'update', 'update_bad', 'close', 'event'):
                ctx_ops.add(i)
            if op['op'] == 'close' and depth:
                depth -= 1
        ctx_ops.add(len(case['ops']))

        def prop_of(i):
            return 'C04' if i in ctx_ops else 'C03'
        from ..kernel import tolerated
        if mh.engine.m.nested_in_trigger:
            d = (f"{mh.engine.m.nested_in_trigger} assignment(s) to a watched parameter made by a callback while param.trigger was dispatching on "
                 f"the same object: they count as triggered themselves (changes-only watchers are called for an unchanged value, the event "
                 f"type is 'triggered')")
            if 'C03.assignment_in_trigger_callback_counts_as_triggered' in tolerated('C03'):
                out.known.append(('C03.assignment_in_trigger_callback_counts_as_triggered', d))
            else:
                out.violations.append(('C03.assignment_in_trigger_callback_counts_as_triggered', None, d))
        diff = compare(mtrace, rtrace, prop_of, tolerated('C04'), out.known)
        for e in rtrace:
            out.log.append(repr(e))
        out.log.append('--- model')
        for e in mtrace:
            out.log.append(repr(e))
        if diff is not None:
            out.violations.append((diff[0], diff[1], diff[2]))
        elif rh.engine.problems:
            kind, detail = rh.engine.problems[0]
            out.violations.append((f"{prop}.{kind}", None, detail))
        # coverage probes
        nested = deferred = 0
        depth = 0
        struct = []
        for e in rtrace:
            if e[0] == 'ENTER':
                if depth:
                    nested += 1
                depth += 1
                struct.append(f"(w{e[1]}")
            elif e[0] == 'EXIT':
                depth -= 1
                struct.append(')')
            elif e[0] == 'OP':
                struct.append(f"|{e[2]}")
        out.stats['deliveries'] += sum(1 for e in rtrace if e[0] == 'ENTER')
        out.stats['probe.nested_delivery'] += 1 if nested else 0
        segs = split_ops(rtrace)
        for seg in segs:
            if seg[0][2] in ('close', 'closeall') and any(e[0] == 'ENTER' for e in seg):
                deferred += 1
        out.stats['probe.deferred_delivery_at_close'] += 1 if deferred else 0
        filt = any(op['op'] == 'same' for op in case['ops']) and any(w['oc'] for w in case['cfg']['watchers'])
        out.stats['probe.changes_only_filter_exercised'] += 1 if filt else 0
        for op in case['ops']:
            out.stats['op.' + op['op']] += 1
        if (prop == 'C03' and (nested or filt)) or (prop == 'C04' and deferred):
            out.sig = ''.join(struct)
        out.states = tuple(f"{seg[0][2]}|{sum(1 for e in seg if e[0] == 'ENTER')}|{max([0] + [1 for e in seg if e[0] == 'ENTER'])}"
                           for seg in segs)
        return out


def _truncate(trace, nseg):
    out, n = [], 0
    for e in trace:
        if e[0] == 'OP':
            n += 1
            if n > nseg:
                break
        out.append(e)
    return out


register(DispatchWorld())
