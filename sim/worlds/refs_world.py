"""RefsWorld — C08 (a linked parameter mirrors its reference until overridden) and C02 (a rejected assignment
has no observable effect).

Real: Parameter.__set__ (reference branch), Parameters._resolve_ref/_update_ref/_setup_refs/_sync_refs, resolve_ref/
resolve_value, update()/_ParametersRestorer, bind, depends methods, rx expressions as references, validation.
Model: a link map {(target, parameter) -> reference spec} + source values; the expected value of a linked parameter is
the reference evaluated on the model's source values.  Whether an attempt must be accepted or rejected is decided by
the model (constraints of the target parameter), so the same operation list exercises both properties:
  * accepted attempts and source updates  -> C08.mirror / C08.leak / C08.update_ctx after every step
  * rejected attempts (invalid plain value, invalid-valued reference, constant / read-only violation, rejected
    constructor, class-level and update routes) -> C02: values, event log, watcher tables identical before/after,
    links unchanged (checked behaviourally by the mirror invariant on the following source updates).
"""
from ..kernel import Outcome, register, weighted

TPARAMS = ('a', 'b', 'c', 't', 'k')     # a,b: Number[0,10]; c: nested container; t: String regex; k: constant Number[0,10]


def valid_for(pname, v):
    if pname in ('a', 'b', 'k'):
        return isinstance(v, (int, float)) and not isinstance(v, bool) and 0 <= v <= 10
    if pname == 't':
        return isinstance(v, str) and len(v) == 2 and v[0] == 'v' and v[1].isdigit()
    return True


def eval_ref(ref, src):
    k = ref['k']
    if k == 'param':
        return src[ref['s']][ref['p']]
    if k == 'bind':
        x = src[ref['s']][ref['p']]
        return {'dbl': x * 2, 'neg': -x, 'inc': x + 1, 'str': f"v{x}"}[ref['f']]
    if k == 'bind2':
        return src[ref['s']]['x'] + src[ref['s2']]['y']
    if k == 'abind':          # bound coroutine function: applied when its task completes (op 'drain')
        return src[ref['s']][ref['p']] + 1
    if k == 'method':
        return src[ref['s']]['x'] + 1
    if k == 'msub':           # a method depending on 'x' and, through the source's sub-object, on 'sub.v'
        return src[ref['s']]['x'] + src[ref['s']]['subv']
    if k == 'rx':
        x = src[ref['s']][ref['p']]
        return {'dbl': x * 2, 'inc': x + 1, 'str': f"v{x}"}[ref['f']]
    if k == 'nested':
        out = [eval_ref(it, src) if isinstance(it, dict) else it for it in ref['items']]
        return out if ref.get('as', 'list') == 'list' else {f"k{i}": v for i, v in enumerate(out)}
    raise ValueError(k)


def ref_sources(ref):
    k = ref['k']
    if k == 'nested':
        s = set()
        for it in ref['items']:
            if isinstance(it, dict):
                s |= ref_sources(it)
        return s
    if k == 'bind2':
        return {(ref['s'], 'x'), (ref['s2'], 'y')}
    if k == 'method':
        return {(ref['s'], 'x')}
    if k == 'msub':
        return {(ref['s'], 'x'), (ref['s'], 'subv')}
    return {(ref['s'], ref['p'])}


class RefsWorld:
    name = 'refs'
    props = ('C02', 'C08')
    levels = {'C02': 'fault_enumeration', 'C08': 'exploration'}
    chunk = 300
    budget = {'quick': dict(runs=16000, wall=180.0), 'thorough': dict(runs=800000, wall=900.0)}
    time_unit = 'n/a: logical steps only'
    state_measure = 'distinct (number of live links, reference kinds in use, tainted sources) tuples after each step'
    components = {'real': ['Parameter.__set__ reference branch, Parameters._resolve_ref/_update_ref/_setup_refs/_sync_refs/update, '
                           '_ParametersRestorer, resolve_ref/resolve_value', 'param.bind, depends methods, rx expressions as references',
                           'parameter validation (Number bounds, String regex, constant, readonly)'],
                  'stub': ['universal observer watchers (log every event on every object)', 'link-map model (oracle)']}
    rules = {
        'C08': 'case = 2 sources, 1-3 targets with 5 allow_refs parameters (bounded numbers, regex string, nested container, constant) + history '
               'of source updates, links (Parameter / bind / two-source bind / depends method / rx / nested list or dict of these) made in the '
               'constructor or later, plain overrides, relinks, update() contexts; the mirror invariant, the leak baseline and context '
               'restoration are checked after every step; non-trivial = a parameter was relinked or overridden while another link on the same '
               'object stayed live, and a source changed afterwards; distinct = distinct op-kind sequences.',
        'C02': 'same histories with rejected attempts injected at every position: invalid plain value, reference whose current value is invalid '
               'for the target, constant / read-only violation, invalid class-level default, single-key update, rejected constructor; each attempt is '
               'bracketed by complete snapshots (values of every object, universal event log, watcher-table sizes) and followed by source updates '
               'that reveal a switched link; evaluations counts histories; non-trivial = at least one rejected attempt hit a parameter that '
               'currently holds a live link; distinct = distinct (attempt kind, link state) sequences.'}
    assumptions = {'*': ['when a source update makes some linked value invalid the failing update may prevent other links of that source from '
                         'being refreshed; mirror checks for that source resume after its next fully valid update',
                         'side effects of user functions evaluated while resolving a reference are not compared',
                         'watcher leak is measured by counting entries of the public .param.watchers table against a baseline']}

    # ----------------------------------------------------------------------------------------- generation
    def gen_ref(self, rng, pname, ns, depth=0):
        if pname == 'c' and depth == 0:
            n = rng.randint(1, 3)
            return {'k': 'nested', 'as': rng.choice(['list', 'list', 'dict']),
                    'items': [self.gen_ref(rng, 'a', ns, 1) if rng.random() < 0.7 else rng.randint(0, 9) for _ in range(n)]}
        if pname == 't':
            k = rng.choice(['bind', 'rx'])
            return {'k': k, 's': rng.randrange(ns), 'p': rng.choice(['x', 'y']), 'f': 'str'}
        k = weighted(rng, [('param', 4), ('bind', 3), ('bind2', 1), ('method', 1.5), ('rx', 2), ('msub', 1.2 if pname in ('a', 'b') else 0),
                           ('abind', 1.2 if depth == 0 and pname in ('a', 'b') else 0)])
        if k == 'msub':
            return {'k': k, 's': rng.randrange(ns)}
        if k == 'abind':
            return {'k': k, 's': rng.randrange(ns), 'p': rng.choice(['x', 'y'])}
        if k == 'param':
            return {'k': k, 's': rng.randrange(ns), 'p': rng.choice(['x', 'y'])}
        if k == 'bind':
            return {'k': k, 's': rng.randrange(ns), 'p': rng.choice(['x', 'y']), 'f': rng.choice(['dbl', 'inc', 'neg', 'inc'])}
        if k == 'bind2':
            return {'k': k, 's': rng.randrange(ns), 's2': rng.randrange(ns)}
        if k == 'method':
            return {'k': k, 's': rng.randrange(ns)}
        return {'k': k, 's': rng.randrange(ns), 'p': rng.choice(['x', 'y']), 'f': rng.choice(['dbl', 'inc'])}

    def gen(self, rng, prop, tier, avoid):
        big = tier == 'thorough'
        ns = 2
        cfg = {'n_src': ns, 'n_tgt': rng.choice([1, 1, 2]), 'ctor_links': rng.random() < 0.5, 'reject_rate': 0.0, 'avoid': sorted(avoid)}
        if prop == 'C02':
            cfg['reject_rate'] = rng.choice([0.15, 0.3, 0.45])
        elif rng.random() < 0.5:
            cfg['reject_rate'] = 0.05
        cfg['ctor'] = []
        for _ in range(cfg['n_tgt']):
            kw = {}
            if cfg['ctor_links']:
                for pn in TPARAMS:
                    if rng.random() < 0.4:
                        kw[pn] = {'ref': self.gen_ref(rng, pn, ns)}
            cfg['ctor'].append(kw)
        n_ops = min(70 if big else 40, 3 + int(rng.expovariate(1 / (18.0 if big else 11.0))))
        ops = []
        rr = cfg['reject_rate']
        after_reject = 0
        for _ in range(n_ops):
            if after_reject and rng.random() < 0.7:
                after_reject -= 1
                ops.append({'op': 'src', 's': rng.randrange(ns), 'p': rng.choice(['x', 'y']), 'v': rng.randint(0, 5)})
                continue
            if rng.random() < rr:
                k = weighted(rng, [('plain_bad', 3), ('link_bad', 4), ('const', 2), ('ro', 1), ('clsset', 1), ('update_bad', 2), ('ctor_bad', 1.5),
                                   ('reent', 2.5), ('batch_reject', 1.5), ('ev_bad', 1)])
                after_reject = 2
            else:
                k = weighted(rng, [('src', 8), ('link', 5), ('plain', 2.5), ('update1', 1), ('uctx_open', 1), ('uctx_close', 1.2), ('ctor', 0.6),
                                   ('drain', 1.5), ('step', 2), ('reent_over', 0.8), ('trigger', 0.8), ('subv', 1.0), ('sub_gap', 1.0),
                                   ('subswap', 0.8 if prop == 'C08' else 0)])
            t = rng.randrange(3)
            pn = rng.choice(TPARAMS[:4])
            if k == 'subv':
                ops.append({'op': 'src', 's': rng.randrange(ns), 'p': 'subv', 'v': rng.randint(0, 4)})
            elif k == 'subswap':
                ops.append({'op': 'subswap', 's': rng.randrange(ns), 'v': rng.randint(0, 4)})
            elif k == 'sub_gap':
                ops.append({'op': 'sub_gap', 't': t, 'v': rng.randint(0, 10), 'how': rng.choice(['plain', 'plain', 'link'])})
            elif k == 'src':
                big_v = rng.random() < (0.08 if rr else 0.03)
                ops.append({'op': 'src', 's': rng.randrange(ns), 'p': rng.choice(['x', 'y']), 'v': rng.randint(11, 15) if big_v else rng.randint(0, 5)})
            elif k == 'link':
                ops.append({'op': 'link', 't': t, 'p': pn, 'ref': self.gen_ref(rng, pn, ns)})
                if ops[-1]['ref']['k'] == 'abind' and rng.random() < 0.25:
                    ops[-1]['noloop'] = True        # assigned while no event loop is running: complete when the assignment returns
            elif k == 'plain':
                v = {'a': rng.randint(0, 10), 'b': rng.randint(0, 10), 'c': [rng.randint(0, 9)], 't': f"v{rng.randint(0, 9)}"}[pn]
                ops.append({'op': 'plain', 't': t, 'p': pn, 'v': v})
            elif k == 'update1':
                v = {'a': rng.randint(0, 10), 'b': rng.randint(0, 10), 'c': [rng.randint(0, 9)], 't': f"v{rng.randint(0, 9)}"}[pn]
                ops.append({'op': 'update1', 't': t, 'p': pn, 'v': v, 'form': rng.choice(['kw', 'kw', 'dict', 'dict+kw', 'pairs'])})
            elif k == 'uctx_open':
                v = {'a': rng.randint(0, 10), 'b': rng.randint(0, 10), 'c': [rng.randint(0, 9)], 't': f"v{rng.randint(0, 9)}"}[pn]
                ops.append({'op': 'uctx_open', 't': t, 'p': pn, 'v': v, 'form': rng.choice(['kw', 'kw', 'dict', 'dict+kw', 'pairs'])})
            elif k == 'uctx_close':
                ops.append({'op': 'uctx_close', 't': t})
            elif k == 'ctor':
                kw = {p: {'ref': self.gen_ref(rng, p, ns)} for p in TPARAMS if rng.random() < 0.4}
                op = {'op': 'ctor', 'kw': kw}
                if rng.random() < 0.4:
                    ipn = rng.choice(['a', 'b'])
                    if rng.random() < 0.5:
                        op['init'] = {'p': ipn, 'v': rng.randint(0, 10)}
                    else:
                        op['init'] = {'p': ipn, 'ref': {'k': rng.choice(['param', 'bind']), 's': rng.randrange(ns), 'p': rng.choice(['x', 'y']), 'f': 'inc'}}
                ops.append(op)
            elif k == 'drain':
                ops.append({'op': 'drain'})
            elif k == 'step':
                ops.append({'op': 'step', 'n': rng.randint(1, 3)})
            elif k == 'plain_bad':
                pn = rng.choice(['a', 'b', 't'])
                v = {'a': rng.choice([11, -1, 'x']), 'b': rng.choice([99, None]), 't': rng.choice(['V1', 'v', 7])}[pn]
                ops.append({'op': 'plain', 't': t, 'p': pn, 'v': v})
            elif k == 'update_bad':
                pn = rng.choice(['a', 'b', 't'])
                v = {'a': 12, 'b': -3, 't': 'nope'}[pn]
                ops.append({'op': 'update1', 't': t, 'p': pn, 'v': v})
            elif k == 'link_bad':
                # make the reference's current value invalid first, then try to link it
                pn = rng.choice(['a', 'b', 't', 'k'])
                ref = self.gen_ref(rng, pn, ns)
                if ref['k'] in ('bind2',):
                    ref = {'k': 'param', 's': ref['s'], 'p': 'x'}
                noloop = pn in ('a', 'b') and rng.random() < 0.25
                if noloop:
                    # a bound coroutine function assigned while no event loop is running: the executor runs it to completion inside
                    # the assignment, so an invalid result is a rejected assignment like any other (seeded change C02-m14)
                    ref = {'k': 'abind', 's': ref['s'], 'p': rng.choice(['x', 'y'])}
                ops.append({'op': 'src', 's': ref['s'], 'p': ref.get('p', 'x'), 'v': rng.randint(11, 15), 'quiet': True})
                ops.append({'op': 'link', 't': t, 'p': pn, 'ref': ref})
                if noloop:
                    ops[-1]['noloop'] = True
            elif k == 'trigger':
                ops.append({'op': 'trigger', 't': t, 'p': pn, 'over': rng.random() < 0.4})
            elif k == 'ev_bad':
                ops.append({'op': 'ev_bad', 't': t, 'how': rng.choice(['plain', 'update'])})
            elif k == 'comp_bad':
                ops.append({'op': 'comp_bad', 't': t, 'v': rng.randint(0, 10)})
            elif k == 'reent_over':
                ops.append({'op': 'reent', 't': t, 'p': rng.choice(['a', 'b']), 'i': rng.randrange(2), 'v': rng.randint(0, 5), 'how': 'override',
                            'bs': 0, 'bp': 'x'})
            elif k == 'batch_reject':
                ops.append({'op': 'batch_reject', 't': t, 'p': rng.choice(['a', 'b']), 'how': rng.choice(['update', 'update', 'plain'])})
            elif k == 'reent':
                ops.append({'op': 'reent', 't': t, 'p': rng.choice(['a', 'b', 't', 'a']), 'i': rng.randrange(2), 'v': rng.randint(0, 5),
                            'how': rng.choice(['ref', 'ref', 'plain', 'override']), 'bs': rng.randrange(ns), 'bp': rng.choice(['x', 'y'])})
            elif k == 'const':
                ops.append({'op': 'const', 't': t, 'how': rng.choice(['plain', 'ref', 'update'])})
            elif k == 'ro':
                ops.append({'op': 'ro', 't': t, 'how': rng.choice(['inst', 'cls', 'ref']), 'sub': rng.random() < 0.5})
            elif k == 'clsset':
                ops.append({'op': 'clsset', 'p': rng.choice(['a', 't']), 'v': rng.choice([99, 'bad']), 'sub': rng.random() < 0.5})
            elif k == 'ctor_bad':
                pn = rng.choice(['a', 'b', 't'])
                kw = {p: {'ref': self.gen_ref(rng, p, ns)} for p in ('c',) if rng.random() < 0.5}
                if rng.random() < 0.5:
                    kw[pn] = {'v': {'a': 44, 'b': -4, 't': 'XX'}[pn]}
                else:
                    ref = {'k': 'param', 's': rng.randrange(ns), 'p': 'x'} if pn != 't' else {'k': 'bind', 's': rng.randrange(ns), 'p': 'x', 'f': 'str'}
                    ops.append({'op': 'src', 's': ref['s'], 'p': 'x', 'v': rng.randint(11, 15), 'quiet': True})
                    kw[pn] = {'ref': ref}
                ops.append({'op': 'ctor', 'kw': kw})
        return {'cfg': cfg, 'ops': ops}

    def skeleton(self, case):
        sk = []
        for op in case['ops']:
            k = op['op']
            if k == 'link':
                sk.append(f"link:{op['p']}:{op['ref']['k']}")
            elif k in ('plain', 'update1', 'uctx_open'):
                sk.append(f"{k}:{op['p']}")
            elif k in ('const', 'ro'):
                sk.append(f"{k}:{op['how']}")
            else:
                sk.append(k)
        return sk

    def simplify(self, case):
        cfg = case['cfg']
        if cfg['n_tgt'] > 1:
            yield {**case, 'cfg': {**cfg, 'n_tgt': cfg['n_tgt'] - 1, 'ctor': cfg['ctor'][:-1]}}
        for i, kw in enumerate(cfg['ctor']):
            for pn in list(kw):
                k2 = {a: b for a, b in kw.items() if a != pn}
                yield {**case, 'cfg': {**cfg, 'ctor': cfg['ctor'][:i] + [k2] + cfg['ctor'][i + 1:]}}
        ops = case['ops']
        for i, op in enumerate(ops):
            if op.get('t'):
                yield {**case, 'ops': ops[:i] + [{**op, 't': 0}] + ops[i + 1:]}
            if op['op'] == 'link':
                ref = op['ref']
                if ref['k'] == 'nested':
                    if len(ref['items']) > 1:
                        for j in range(len(ref['items'])):
                            yield {**case, 'ops': ops[:i] + [{**op, 'ref': {**ref, 'items': ref['items'][:j] + ref['items'][j + 1:]}}] + ops[i + 1:]}
                    if ref.get('as') != 'list':
                        yield {**case, 'ops': ops[:i] + [{**op, 'ref': {**ref, 'as': 'list'}}] + ops[i + 1:]}
                elif ref['k'] != 'param' and op['p'] != 't':
                    yield {**case, 'ops': ops[:i] + [{**op, 'ref': {'k': 'param', 's': ref['s'], 'p': ref.get('p', 'x')}}] + ops[i + 1:]}
            if op['op'] == 'ctor' and op['kw']:
                for pn in list(op['kw']):
                    yield {**case, 'ops': ops[:i] + [{**op, 'kw': {a: b for a, b in op['kw'].items() if a != pn}}] + ops[i + 1:]}

    # ----------------------------------------------------------------------------------------- execution
    def run(self, case):
        from ..simloop import SimLoop
        loop = SimLoop()
        loop.install()
        r = _Run(case)
        r.loop = loop
        try:
            r.execute()
        finally:
            loop.shutdown()
        return r.out


class _Run:
    def __init__(self, case):
        import param
        self.param = param
        self.case = case
        self.cfg = case['cfg']
        self.out = Outcome()
        self.elog = []          # universal event log
        self.rejected_on = {}   # (target, parameter) -> description of the last rejected attempt since its last accepted one
        self.pending = set()    # (target, parameter) whose asynchronous link has an evaluation in flight (applied at the next drain)
        self.cancelled = {}     # (target, parameter) -> link whose pending evaluation a rejected no-loop assignment cancelled (known finding)
        self.unknown = set()    # asynchronous links whose latest evaluation was invalid: value not decided until a valid one completes
        self.step = 0

    def viol(self, clause, detail):
        if not self.out.violations:
            self.out.violations.append((clause, self.step, detail))
            self.out.log.append(f"VIOLATION {clause} {detail}")

    # -- world ------------------------------------------------------------------------------------------
    def build(self):
        param = self.param
        run = self

        class Src(param.Parameterized):
            x = param.Number(default=1)
            y = param.Number(default=2)

            sub = param.Parameter(default=None)

            @param.depends('x')
            def m(self):
                return self.x + 1

            @param.depends('x', 'sub.v')
            def ms(self):
                return self.x + (self.sub.v if self.sub is not None else 0)

        class Leaf(param.Parameterized):
            v = param.Number(default=1)
        self.Src = Src
        self.Leaf = Leaf
        self.init_action = None

        def _oninit(self_obj):
            # an on_init method that assigns a parameter of the object under construction (a plain value or a reference)
            act, run.init_action = run.init_action, None
            if act is not None:
                setattr(self_obj, act[0], act[1])
        self.Tgt = type('Tgt', (param.Parameterized,), {
            '_oninit': param.depends(watch=True, on_init=True)(_oninit),
            'a': param.Number(default=1, bounds=(0, 10), allow_refs=True),
            'b': param.Number(default=2, bounds=(0, 10), allow_refs=True),
            'c': param.Parameter(default=None, allow_refs=True, nested_refs=True),
            't': param.String(default='v0', regex='^v[0-9]$', allow_refs=True),
            'k': param.Number(default=3, bounds=(0, 10), constant=True, allow_refs=True),
            'ro': param.Number(default=4, readonly=True, allow_refs=True),
            'e': param.Event(),
            'comp': param.Composite(attribs=['a', 'b']),
        })
        self.SubTgt = type('SubTgt', (self.Tgt,), {})       # inherits every Parameter: a class-level set copies on write
        self.src = [Src(sub=Leaf()) for _ in range(self.cfg['n_src'])]
        self.msrc = [{'x': 1, 'y': 2, 'subv': 1} for _ in self.src]
        self.tainted = set()          # sources whose last update raised
        self.stale_msub = set()       # (target, parameter, id(link)) of method links made before the source's sub-object was replaced
        self.base = []
        for i, s in enumerate(self.src):
            self.observe(s, f"S{i}", ('x', 'y'))
            self.base.append(self.wcount(s))
        self.tgt = []
        self.links = []               # per target: {pname: ref}
        self.mval = []                # per target: {pname: model value}
        self.uctx = []                # per target: stack of (restorer, pname, saved model value, saved link)
        for kw in self.cfg['ctor'][:self.cfg['n_tgt']]:
            self.construct(kw, initial=True)
        while len(self.tgt) < 1:
            self.construct({}, initial=True)

    def observe(self, obj, label, names):
        for n in names:
            def cb(*events, _l=label):
                for e in events:
                    self.elog.append((_l, e.name, repr(e.new)))
            obj.param.watch(cb, [n], onlychanged=False, precedence=10)

    def wcount(self, obj):
        return sum(len(lst) for whats in obj.param.watchers.values() for lst in whats.values())

    def wtable(self, obj):
        """the watcher table as a sorted list of (parameter, what, callback name): only used to word a C02.watchers violation"""
        return sorted((pn, what, str(getattr(w.fn, '__qualname__', type(w.fn).__name__))[-48:])
                      for pn, whats in obj.param.watchers.items() for what, lst in whats.items() for w in lst)

    def make_ref(self, ref):
        """Build the real reference object for a spec (may install rx-owned watchers on sources: re-baselined)."""
        param = self.param
        k = ref['k']
        if k == 'param':
            return getattr(self.src[ref['s']].param, ref['p'])
        if k == 'bind':
            f = {'dbl': lambda x: x * 2, 'neg': lambda x: -x, 'inc': lambda x: x + 1, 'str': lambda x: f"v{x}"}[ref['f']]
            return param.bind(f, getattr(self.src[ref['s']].param, ref['p']))
        if k == 'bind2':
            return param.bind(lambda x, y: x + y, self.src[ref['s']].param.x, self.src[ref['s2']].param.y)
        if k == 'abind':
            async def later(x):
                import asyncio
                await asyncio.sleep(0)
                return x + 1
            return param.bind(later, getattr(self.src[ref['s']].param, ref['p']))
        if k == 'method':
            return self.src[ref['s']].m
        if k == 'msub':
            return self.src[ref['s']].ms
        if k == 'rx':
            before = [self.wcount(s) for s in self.src]
            e = getattr(self.src[ref['s']].param, ref['p']).rx()
            e = {'dbl': lambda z: z * 2, 'inc': lambda z: z + 1, 'str': lambda z: z.rx.pipe(lambda x: f"v{x}")}[ref['f']](e)
            for i, s in enumerate(self.src):      # watchers owned by the expression itself are not the target's
                self.base[i] += self.wcount(s) - before[i]
            return e
        if k == 'nested':
            items = [self.make_ref(it) if isinstance(it, dict) else it for it in ref['items']]
            return items if ref.get('as', 'list') == 'list' else {f"k{i}": v for i, v in enumerate(items)}
        raise ValueError(k)

    def construct(self, kw, initial=False, init=None):
        """Returns True if the model says the constructor call is acceptable."""
        real_kw, links, vals = {}, {}, {'a': 1, 'b': 2, 'c': None, 't': 'v0', 'k': 3}
        ok = True
        self.init_action = None
        for pn, d in kw.items():
            if 'ref' in d:
                v = eval_ref(d['ref'], self.msrc)
                real_kw[pn] = self.make_ref(d['ref'])
                links[pn] = d['ref']
                if d['ref']['k'] == 'abind':
                    continue            # nothing is applied (or validated) before the task completes
            else:
                v = d['v']
                real_kw[pn] = v
            if not valid_for(pn, v):
                ok = False
            vals[pn] = v
        if ok and not initial and len(self.tgt) >= 3:
            return      # keep the world small
        snap = self.snapshot() if not ok else None
        if ok and init is not None:
            # performed by the object's on_init method: it overrides or replaces what the constructor arguments linked
            ipn = init['p']
            if 'ref' in init:
                iv = eval_ref(init['ref'], self.msrc)
                if valid_for(ipn, iv):
                    self.init_action = (ipn, self.make_ref(init['ref']))
                    links[ipn] = init['ref']
                    vals[ipn] = iv
            elif valid_for(ipn, init['v']):
                self.init_action = (ipn, init['v'])
                links.pop(ipn, None)
                vals[ipn] = init['v']
            if self.init_action is not None:
                self.out.stats['probe.assignment_from_on_init_method'] += 1
        try:
            obj = self.Tgt(**real_kw)
        except Exception as e:      # noqa
            if ok:
                self.viol('C08.exception', f"constructor with {kw} raised {type(e).__name__}: {e}")
            else:
                self.out.stats['reject.ctor'] += 1
                self.compare_snap(snap, f"rejected constructor {kw}")
            return
        if not ok:
            self.viol('C02.accepted', f"constructor accepted invalid arguments {kw} (resolved {vals})")
            return
        idx = len(self.tgt)
        self.observe(obj, f"T{idx}", TPARAMS)
        self.tgt.append(obj)
        self.links.append(links)
        self.pending |= {(idx, pn) for pn, r in links.items() if r['k'] == 'abind'}
        self.mval.append(vals)
        self.uctx.append([])

    # -- observation ------------------------------------------------------------------------------------------
    def snapshot(self):
        vals = []
        for i, s in enumerate(self.src):
            vals.append((f"S{i}", s.x, s.y, self.wcount(s)))
        for i, t in enumerate(self.tgt):
            vals.append((f"T{i}",) + tuple(repr(getattr(t, p)) for p in TPARAMS + ('ro', 'e')) + (self.wcount(t),))
        vals.append(('cls', repr(self.Tgt.a), repr(self.Tgt.t), repr(self.Tgt.ro), repr(self.Tgt.k)))
        # the inheriting subclass sees the very Parameter objects of its base (a rejected class-level set must not detach it)
        vals.append(('subcls', repr(self.SubTgt.a), repr(self.SubTgt.t), repr(self.SubTgt.ro)) +
                    tuple(self.SubTgt.param[p] is self.Tgt.param[p] for p in ('a', 't', 'ro', 'k', 'c')))
        return (vals, len(self.elog), [self.wtable(o) for o in list(self.src) + list(self.tgt)])

    def compare_snap(self, snap, what):
        now = self.snapshot()
        if now[1] != snap[1]:
            self.viol('C02.events', f"{what}: {now[1] - snap[1]} watcher call(s) happened: {self.elog[snap[1]:][:4]}")
            return
        for a, b in zip(snap[0], now[0]):
            if a != b:
                if a[-1] != b[-1] and a[:-1] == b[:-1]:
                    from collections import Counter
                    i = [x[0] for x in snap[0]].index(a[0])
                    gone = sorted((Counter(snap[2][i]) - Counter(now[2][i])).elements())
                    came = sorted((Counter(now[2][i]) - Counter(snap[2][i])).elements())
                    self.viol('C02.watchers', f"{what}: watcher table of {a[0]} changed size {a[-1]} -> {b[-1]} (gone {gone}, new {came})")
                else:
                    self.viol('C02.values', f"{what}: state of {a[0]} changed {a} -> {b}")
                return

    def check_mirror(self, where):
        for ti, t in enumerate(self.tgt):
            for pn in TPARAMS:
                ref = self.links[ti].get(pn)
                exp = self.mval[ti][pn]
                if ref is not None and (ref_sources(ref) & self.tainted_params()):
                    continue
                if (ti, pn) in self.pending or ((ti, pn) in self.unknown and ref is not None):
                    continue
                if (ti, pn) in self.cancelled:
                    if self.cancelled[(ti, pn)] is ref:
                        continue
                    del self.cancelled[(ti, pn)]        # (assigned since: decided again)
                got = getattr(t, pn)
                if ref is not None and any(x[2] == id(ref) for x in self.stale_msub):
                    # known finding: a reference to a method that depends on 'sub.v' watches the Parameter objects it resolved to
                    # when the link was made; it does not follow a replacement of the sub-object (nor the new one's parameters)
                    if got != exp or type(got) is not type(exp):
                        from ..kernel import tolerated
                        d_ = (f"{where}: T{ti}.{pn} follows {ref} - the method ms depends on 'x' and 'sub.v'; the sub-object of its source "
                              f"was replaced after the link was made and T{ti}.{pn} holds {got!r}, the reference resolves to {exp!r}")
                        if 'C08.method_reference_does_not_follow_replaced_subobject' in tolerated('C08'):
                            self.out.known.append(('C08.method_reference_does_not_follow_replaced_subobject', d_))
                        else:
                            self.viol('C08.method_reference_does_not_follow_replaced_subobject', d_)
                            return
                    continue
                if got != exp or type(got) is not type(exp):
                    kind = 'linked' if ref is not None else 'unlinked'
                    clause = 'C08.mirror' if ref is not None else 'C08.unlink'
                    if (ti, pn) in self.rejected_on:
                        # the parameter stopped behaving as the model's (unchanged) link map says right after a
                        # rejected attempt on it: the rejected attempt had an effect on the links
                        # (reported under the property being checked: for C08 the link did not survive a non-override)
                        if self.case['prop'] == 'C02':
                            clause = 'C02.links'
                        where = f"{where}; earlier rejected attempt: {self.rejected_on[(ti, pn)]}"
                    self.viol(clause, f"{where}: T{ti}.{pn} ({kind}{' to ' + str(ref) if ref else ''}) holds {got!r}, expected {exp!r}; "
                                      f"sources {self.msrc}")
                    return
        # leak: a source nobody links to carries no watcher beyond its baseline
        used = set()
        for ti in range(len(self.tgt)):
            for ref in self.links[ti].values():
                used |= {s for s, _ in ref_sources(ref)}
            for _, _, _, link in self.uctx[ti]:
                if link is not None:
                    used |= {s for s, _ in ref_sources(link)}
        for i, s in enumerate(self.src):
            if i not in used and self.wcount(s) != self.base[i]:
                self.viol('C08.leak', f"{where}: source S{i} is referenced by no link but carries {self.wcount(s) - self.base[i]} extra watcher(s)")
                return
            # ... and a source that is linked to is watched once per parameter on behalf of a target, however its links came about
            # (a relink made while another reference of the target could not be resolved left a second watcher behind)
            for pn, whats in s.param.watchers.items():
                for what, lst in whats.items():
                    owners = [id(getattr(getattr(w.fn, '__self__', None), 'self', None)) for w in lst
                              if getattr(w.fn, '__name__', '') == '_sync_refs']
                    if len(owners) != len(set(owners)):
                        self.viol('C08.leak', f"{where}: source S{i}.{pn} carries {len(owners)} synchronisation watchers for "
                                              f"{len(set(owners))} linked object(s): a link keeps one watcher per source parameter")
                        return

    def tainted_params(self):
        return set(self.tainted)

    # -- propagation in the model ------------------------------------------------------------------------------
    def model_src_change(self, s, p):
        """Returns True if every dependent link resolves to a valid value."""
        allok = True
        for ti in range(len(self.tgt)):
            for pn, ref in self.links[ti].items():
                if ref['k'] == 'abind':
                    # every synchronisation of the object re-evaluates its asynchronous references
                    self.pending.add((ti, pn))
                    if (s, p) in ref_sources(ref) and self.cancelled.get((ti, pn)) is ref:
                        del self.cancelled[(ti, pn)]
                    continue
                if (s, p) in ref_sources(ref):
                    v = eval_ref(ref, self.msrc)
                    if valid_for(pn, v):
                        self.mval[ti][pn] = v
                        self.unknown.discard((ti, pn))
                    else:
                        allok = False
        return allok

    # -- operations --------------------------------------------------------------------------------------------------
    def attempt(self, fn, ok, what, ti=None, pn=None):
        """Run an assignment attempt; `ok` is the model's verdict."""
        if ok:
            try:
                fn()
            except Exception as e:      # noqa
                self.viol('C08.exception', f"{what} raised {type(e).__name__}: {str(e)[:160]}")
                return False
            self.rejected_on.pop((ti, pn), None)
            return True
        snap = self.snapshot()
        linked = ti is not None and pn in self.links[ti]
        try:
            fn()
        except (ValueError, TypeError):
            self.out.stats['reject.' + what.split(' ')[0]] += 1
            if ti is not None:
                self.rejected_on[(ti, pn)] = what
            if linked:
                self.out.stats['probe.reject_on_linked_parameter'] += 1
            self.compare_snap(snap, f"rejected {what}")
            return False
        except Exception as e:      # noqa
            self.viol('C02.exception', f"rejected {what} raised {type(e).__name__} (expected ValueError/TypeError): {str(e)[:120]}")
            return False
        self.viol('C02.accepted', f"{what} was accepted although the value is invalid for the parameter")
        return False

    def do(self, op):
        k = op['op']
        nt = len(self.tgt)
        if k == 'src':
            s = op['s'] % len(self.src)
            unchanged = self.msrc[s][op['p']] == op['v']
            self.msrc[s][op['p']] = op['v']
            allok = self.model_src_change(s, op['p'])
            try:
                if op['p'] == 'subv':
                    self.src[s].sub.v = op['v']
                else:
                    setattr(self.src[s], op['p'], op['v'])
                raised = False
            except Exception as e:      # noqa
                raised = True
                self.out.log.append(f"   source update raised {type(e).__name__}")
            if raised and allok:
                self.viol('C08.exception', f"S{s}.{op['p']} = {op['v']} raised although every linked value is valid")
            if allok and not raised:
                if not unchanged:       # an assignment of the current value notifies nobody and refreshes nothing
                    self.tainted.discard((s, op['p']))
            else:
                self.tainted.add((s, op['p']))
                self.out.stats['fault.source_went_invalid'] += 1
            return
        if k == 'subswap':
            # the sub-object of a source is replaced by another one: what a method reaches through it changes
            si = op['s'] % len(self.src)
            def through(r):
                return (r['k'] == 'msub' and r['s'] == si) or (r['k'] == 'nested' and any(isinstance(it, dict) and through(it) for it in r['items']))
            for ti2 in range(len(self.tgt)):
                for pn2, r in self.links[ti2].items():
                    if through(r):
                        self.stale_msub.add((ti2, pn2, id(r)))
                for _, _, _, link in self.uctx[ti2]:
                    if link is not None and through(link):
                        self.stale_msub.add((ti2, None, id(link)))
            self.msrc[si]['subv'] = op['v']
            self.model_src_change(si, 'subv')
            self.src[si].sub = self.Leaf(v=op['v'])
            self.out.stats['probe.subobject_of_a_source_replaced'] += 1
            return
        if k == 'sub_gap':
            # one link of an object is ended (plain value) or replaced while ANOTHER of its references cannot be resolved: a
            # method depending on 'sub.v' while the source's sub-object is missing for a moment. The other links keep working.
            ti = op.get('t', 0) % nt
            gaps = sorted(q for q, r in self.links[ti].items() if r['k'] == 'msub')
            others = sorted(q for q, r in self.links[ti].items() if q in ('a', 'b') and r['k'] not in ('msub', 'abind', 'nested')
                            and (ti, q) not in self.pending)
            if self.uctx[ti]:
                return
            if not gaps or not others:
                # (set the scene: one parameter follows the method, the other one a plain Parameter)
                s0 = op.get('v', 0) % len(self.src)
                if self.msrc[s0]['x'] + self.msrc[s0]['subv'] > 10 or self.msrc[s0]['y'] > 10 or (s0, 'x') in self.tainted or (s0, 'y') in self.tainted:
                    return
                if not gaps:
                    q = 'b' if 'a' in others else 'a'
                    self.do({'op': 'link', 't': ti, 'p': q, 'ref': {'k': 'msub', 's': s0}})
                gaps = sorted(q for q, r in self.links[ti].items() if r['k'] == 'msub')
                if gaps and not [q for q in others if q != gaps[0]]:
                    q = 'b' if gaps[0] == 'a' else 'a'
                    self.do({'op': 'link', 't': ti, 'p': q, 'ref': {'k': 'param', 's': s0, 'p': 'y'}})
                others = sorted(q for q, r in self.links[ti].items() if q in ('a', 'b') and r['k'] not in ('msub', 'abind', 'nested')
                                and (ti, q) not in self.pending)
                if not gaps or not others or self.out.violations:
                    return
            s = self.links[ti][gaps[0]]['s']
            leaf = self.src[s].sub
            self.src[s].sub = None
            try:
                if op.get('how') == 'link':
                    self.do({'op': 'link', 't': ti, 'p': others[0], 'ref': {'k': 'param', 's': s, 'p': 'y'}})
                else:
                    self.do({'op': 'plain', 't': ti, 'p': others[0], 'v': op['v']})
            finally:
                self.src[s].sub = leaf
            self.out.stats['probe.link_ended_while_another_reference_is_unresolvable'] += 1
            return
        if k == 'drain':
            self.drain()
            return
        if k == 'step':
            # let pending tasks advance a little (they may start, suspend or finish): links with an evaluation in
            # flight stay unchecked until the next drain, everything else must keep mirroring
            for _ in range(op.get('n', 1)):
                self.loop.step()
            return
        ti = op.get('t', 0) % nt
        t = self.tgt[ti]
        if k == 'reent':
            self.reentrant(op, ti, t)
            return
        if k == 'ev_bad':
            # a rejected assignment to an Event parameter made while the Event is set (from one of its own watchers)
            fired = []

            def cb(event):
                if not fired and event.new is True:
                    fired.append(1)
                    if op.get('how') == 'update':
                        self.attempt(lambda: t.param.update(e='x'), False, f"update T{ti}.e = 'x' from a watcher of the Event", ti, 'e')
                    else:
                        self.attempt(lambda: setattr(t, 'e', 'x'), False, f"plain T{ti}.e = 'x' from a watcher of the Event", ti, 'e')
            w = t.param.watch(cb, ['e'])
            try:
                t.e = True
            except Exception as e:      # noqa
                self.viol('C08.exception', f"T{ti}.e = True raised {type(e).__name__}: {str(e)[:120]}")
            finally:
                t.param.unwatch(w)
            self.out.stats['probe.rejected_assignment_to_set_event'] += 1
            return
        if k == 'comp_bad':
            # a Composite is assigned values of which a LATER one is invalid for its constituent: nothing may change
            if self.uctx[ti]:
                return
            self.attempt(lambda: setattr(t, 'comp', [op['v'], 99]), False, f"composite T{ti}.comp = [{op['v']}, 99]", ti, 'a')
            return
        if k == 'trigger':
            # param.trigger re-announces the current value: no assignment by the user, a linked parameter stays linked
            pn = op['p']
            if (ti, pn) in self.pending:
                return
            over = None
            if op.get('over'):
                # one of the watchers invoked by the trigger overrides ANOTHER linked parameter through update(): an ordinary
                # assignment, it ends that link (only what param.trigger itself re-assigns leaves links alone)
                cands = sorted(q for q, r in self.links[ti].items() if q != pn and q in ('a', 'b') and r['k'] not in ('abind', 'nested'))
                if cands and not self.uctx[ti]:
                    over = cands[0]

                    def cb(event, _q=over):
                        if over is not None and not fired:
                            fired.append(1)
                            self.attempt(lambda: t.param.update(**{_q: 6}), True, f"update T{ti}.{_q} = 6 from a watcher invoked by param.trigger", ti, _q)
                    fired = []
                    w = t.param.watch(cb, [pn], onlychanged=False)
            try:
                t.param.trigger(pn)
            except Exception as e:      # noqa
                self.viol('C08.exception', f"trigger of T{ti}.{pn} raised {type(e).__name__}: {str(e)[:120]}")
            if over is not None:
                t.param.unwatch(w)
                if fired:
                    self.links[ti].pop(over, None)
                    self.mval[ti][over] = 6
                    self.out.stats['probe.override_from_watcher_invoked_by_trigger'] += 1
            if pn in self.links[ti]:
                self.out.stats['probe.trigger_on_linked_parameter'] += 1
                self.relinked = True
            return
        if k == 'batch_reject':
            # a rejected update in the middle of batch_call_watchers: the batch goes on deferring as before the attempt
            import param
            if self.uctx[ti]:
                return
            pn = op['p']
            other = 'b' if pn == 'a' else 'a'
            bad = {'a': 12, 'b': -3}[pn]
            with param.parameterized.batch_call_watchers(t):
                n0 = len(self.elog)
                self.do({'op': 'plain', 't': ti, 'p': other, 'v': (int(self.mval[ti][other]) + 1) % 11 if isinstance(self.mval[ti][other], (int, float)) else 1})
                how = op.get('how', 'update')
                if how == 'update':
                    self.attempt(lambda: t.param.update(**{pn: bad}), False, f"update T{ti}.{pn} = {bad!r} inside a batch", ti, pn)
                else:
                    self.attempt(lambda: setattr(t, pn, bad), False, f"plain T{ti}.{pn} = {bad!r} inside a batch", ti, pn)
                self.do({'op': 'plain', 't': ti, 'p': other, 'v': (int(self.mval[ti][other]) + 1) % 11})
                if len(self.elog) != n0 and not self.out.violations:
                    self.viol('C02.events', f"after the rejected {how} of T{ti}.{pn} inside batch_call_watchers, a later assignment of the same batch "
                                            f"was delivered before the batch ended: {self.elog[n0:][:3]}")
            self.out.stats['probe.rejected_inside_batch'] += 1
            return
        if k == 'link':
            pn, ref = op['p'], op['ref']
            v = eval_ref(ref, self.msrc)
            is_async = ref['k'] == 'abind'
            noloop = is_async and bool(op.get('noloop'))
            ok = (valid_for(pn, v) or (is_async and not noloop)) and pn != 'k'
            robj = self.make_ref(ref)
            if pn in self.links[ti]:
                self.out.stats['probe.relink'] += 1
                if (ti, pn) in self.pending:
                    self.out.stats['probe.relink_while_async_pending'] += 1
            def assign():
                if not noloop:
                    return setattr(t, pn, robj)
                # no running event loop for the duration of this assignment: param's executor runs the coroutine to completion
                # on a loop of its own before the assignment returns (or raises what the coroutine's result is rejected with)
                import asyncio
                made, new_loop = [], asyncio.new_event_loop

                def recording():
                    made.append(new_loop())
                    return made[-1]
                self.loop.uninstall()
                asyncio.new_event_loop = recording
                try:
                    setattr(t, pn, robj)
                finally:
                    asyncio.new_event_loop = new_loop
                    for lp in made:         # (the library leaves the loop it made open: selector and socket pair)
                        lp.close()
                    self.loop.install()
                self.out.stats['probe.async_reference_assigned_without_running_loop'] += 1
            if noloop and not ok:
                self.out.stats['fault.invalid_async_result_without_running_loop'] += 1
                if (ti, pn) in self.pending and pn in self.links[ti]:
                    # known finding: the parameter follows an asynchronous reference whose evaluation is under way (on a loop that
                    # is not running at this moment); the rejected assignment cancels that evaluation when it installs the new
                    # reference and puts the link back without starting it again, so the value the old link was about to deliver
                    # never arrives (until its source changes again). Everything else about the attempt is checked as usual.
                    from ..kernel import tolerated
                    d_ = (f"T{ti}.{pn} follows {self.links[ti][pn]} with an evaluation pending; the rejected assignment of a coroutine "
                          f"function without a running loop cancelled that evaluation and restored the link without restarting it")
                    if 'C02.pending_evaluation_cancelled_by_rejected_assignment_without_loop' in tolerated('C02') or self.case['prop'] != 'C02':
                        self.out.known.append(('C02.pending_evaluation_cancelled_by_rejected_assignment_without_loop', d_))
                    else:
                        self.viol('C02.pending_evaluation_cancelled_by_rejected_assignment_without_loop', d_)
                        return
                    self.pending.discard((ti, pn))
                    # (undecided until a parameter this very link depends on changes, or the parameter is assigned)
                    self.cancelled[(ti, pn)] = self.links[ti][pn]
            if self.attempt(assign, ok, f"link T{ti}.{pn} <- {ref}{' (no running loop)' if noloop else ''} (resolves to {v!r})", ti, pn):
                self.links[ti][pn] = ref
                if is_async and not noloop:
                    self.pending.add((ti, pn))
                else:
                    self.mval[ti][pn] = v
                    self.pending.discard((ti, pn))
                    self.unknown.discard((ti, pn))
                self.unknown.discard((ti, pn))
                self.relinked = True
        elif k in ('plain', 'update1'):
            pn, v = op['p'], op['v']
            ok = valid_for(pn, v)
            if k == 'plain':
                fn = lambda: setattr(t, pn, v)      # noqa
            else:
                fn = lambda: self.update_call(t, pn, v, op.get('form', 'kw'))      # noqa
            had = pn in self.links[ti]
            if self.attempt(fn, ok, f"{k} T{ti}.{pn} = {v!r}", ti, pn):
                if had:
                    self.out.stats['probe.override_of_live_link'] += 1
                    self.relinked = True
                self.links[ti].pop(pn, None)
                self.mval[ti][pn] = v
                self.pending.discard((ti, pn))
                self.unknown.discard((ti, pn))
        elif k == 'uctx_open':
            pn, v = op['p'], op['v']
            if not valid_for(pn, v) or len(self.uctx[ti]) >= 2:
                return
            holder = {}

            def fn():
                holder['cm'] = self.update_call(t, pn, v, op.get('form', 'kw'))
                holder['cm'].__enter__()
            if self.attempt(fn, True, f"update-context T{ti}.{pn} = {v!r}", ti, pn):
                self.uctx[ti].append((holder['cm'], pn, self.mval[ti][pn], self.links[ti].get(pn)))
                self.links[ti].pop(pn, None)
                self.mval[ti][pn] = v
                self.pending.discard((ti, pn))
                self.unknown.discard((ti, pn))
                self.out.stats['probe.update_ctx'] += 1
        elif k == 'uctx_close':
            if not self.uctx[ti]:
                return
            cm, pn, oldv, oldlink = self.uctx[ti].pop()
            restorable = oldlink is None or oldlink['k'] == 'abind' or valid_for(pn, eval_ref(oldlink, self.msrc))
            # a reference whose source is tainted may hold a stale (cached) value: either outcome is acceptable
            stale = oldlink is not None and bool(ref_sources(oldlink) & self.tainted)
            try:
                cm.__exit__(None, None, None)
            except Exception as e:      # noqa
                if restorable and not stale:
                    self.viol('C08.update_ctx', f"leaving the update context of T{ti}.{pn} raised {type(e).__name__}: {str(e)[:120]}")
                # the reference to restore currently resolves to an invalid value: it cannot be assigned back (the exit raises),
                # the parameter keeps the value it had inside the context - but the link itself is restored, the parameter
                # follows again as soon as its source holds a valid value
                if (ti, pn) in self.pending:
                    # (an asynchronous reference was assigned inside the context: whether its result had been applied when
                    # the exit failed is not tracked - the value is undecided until the restored link delivers a valid one)
                    self.pending.discard((ti, pn))
                    self.unknown.add((ti, pn))
                if oldlink is not None:
                    self.links[ti][pn] = oldlink
                    if oldlink['k'] == 'abind':
                        self.pending.add((ti, pn))
                return
            if not restorable and not stale:
                self.viol('C02.accepted', f"leaving the update context of T{ti}.{pn} re-linked {oldlink} although it resolves to an invalid value")
                return
            if oldlink is not None:
                self.links[ti][pn] = oldlink
                if oldlink['k'] == 'abind':
                    self.pending.add((ti, pn))      # re-evaluated; the value inside the context stays until the task completes
                elif restorable:
                    self.mval[ti][pn] = eval_ref(oldlink, self.msrc)
            else:
                self.links[ti].pop(pn, None)
                self.mval[ti][pn] = oldv
        elif k == 'const':
            how = op['how']
            cur = getattr(t, 'k')       # the value actually held (the model's may be ahead while a source is tainted)
            # re-assigning the identical object to a constant is allowed: only clearly different values are attempted
            if how == 'plain' and cur != 7:
                self.attempt(lambda: setattr(t, 'k', 7), False, f"const T{ti}.k = 7", ti, 'k')
            elif how == 'update' and cur != 8:
                self.attempt(lambda: t.param.update(k=8), False, f"const update T{ti}.k = 8", ti, 'k')
            elif how == 'ref' and cur != self.msrc[0]['y']:
                r = self.src[0].param.y
                self.attempt(lambda: setattr(t, 'k', r), False, f"const T{ti}.k <- S0.y", ti, 'k')
        elif k == 'ro':
            how = op['how']
            if how == 'inst':
                self.attempt(lambda: setattr(t, 'ro', 9), False, f"readonly T{ti}.ro = 9")
            elif how == 'cls':
                K = self.SubTgt if op.get('sub') else self.Tgt
                self.attempt(lambda: setattr(K, 'ro', 9), False, f"readonly {K.__name__}.ro = 9")
            else:
                r = self.src[0].param.y
                self.attempt(lambda: setattr(t, 'ro', r), False, f"readonly T{ti}.ro <- S0.y")
        elif k == 'clsset':
            K = self.SubTgt if op.get('sub') else self.Tgt
            self.attempt(lambda: setattr(K, op['p'], op['v']), False, f"class-level {K.__name__}.{op['p']} = {op['v']!r}")
        elif k == 'ctor':
            self.construct(op['kw'], init=op.get('init'))

    @staticmethod
    def update_call(t, pn, v, form):
        """the calling conventions of param.update: keywords, a mapping, a mapping plus keywords, an iterable of pairs"""
        if form == 'dict':
            return t.param.update({pn: v})
        if form == 'dict+kw':
            return t.param.update({}, **{pn: v})
        if form == 'pairs':
            return t.param.update([(pn, v)])
        return t.param.update(**{pn: v})

    def reentrant(self, op, ti, t):
        """A rejected assignment made from a watcher of the linked parameter while that parameter is being synchronised from
        its source (the re-entrant instant): it raises there and changes nothing, the link keeps following its source."""
        pn = op['p']
        ref = self.links[ti].get(pn)
        if ref is None or ref['k'] in ('abind', 'nested') or (ti, pn) in self.pending or self.tainted or self.uctx[ti]:
            return
        srcs = sorted(ref_sources(ref))
        if not srcs:
            return
        s, sp = srcs[op.get('i', 0) % len(srcs)]
        pick = None
        for d in range(6):
            v = (op['v'] + d) % 6
            trial = [dict(m) for m in self.msrc]
            trial[s][sp] = v
            # every link fed by that source must stay valid, and this one must change (so that its watchers run)
            if eval_ref(ref, trial) != self.mval[ti][pn] and all(
                    valid_for(p2, eval_ref(r2, trial)) for t2 in range(len(self.tgt)) for p2, r2 in self.links[t2].items()
                    if r2['k'] != 'abind' and (s, sp) in ref_sources(r2)):
                pick = (v, trial)
                break
        if pick is None:
            return
        v, trial = pick
        if op['how'] == 'override':
            # a watcher of the parameter assigns a plain value to ANOTHER parameter that is synchronised by the same source
            # update: an ordinary assignment, it ends that link for good
            cands = sorted(q for q, r in self.links[ti].items() if q != pn and q in ('a', 'b') and r['k'] not in ('abind', 'nested') and
                           (s, sp) in ref_sources(r))
            if not cands:
                return
            pn2, plainv = cands[0], 7
            fired = []

            def cb2(event):
                if not fired:
                    fired.append(1)
                    self.attempt(lambda: setattr(t, pn2, plainv), True, f"plain T{ti}.{pn2} = {plainv} from a watcher of T{ti}.{pn} during the sync", ti, pn2)
            w = t.param.watch(cb2, [pn])
            try:
                self.do({'op': 'src', 's': s, 'p': sp, 'v': v})
            finally:
                t.param.unwatch(w)
            if fired:
                self.links[ti].pop(pn2, None)
                self.mval[ti][pn2] = plainv
                self.relinked = True
                self.out.stats['probe.override_from_watcher_during_sync'] += 1
            return
        bad, badv = None, None
        if op['how'] == 'ref':
            if pn == 't':
                bad = {'k': 'param', 's': op['bs'] % len(self.src), 'p': op['bp']}
            else:
                bad = {'k': 'bind', 's': op['bs'] % len(self.src), 'p': op['bp'], 'f': 'neg'}
            if valid_for(pn, eval_ref(bad, trial)):
                bad = None
        if bad is None:
            badv = {'a': -1, 'b': 99, 't': 'V1'}[pn]
        fired = []

        def cb(event):
            if fired:
                return
            fired.append(1)
            value = self.make_ref(bad) if bad is not None else badv
            self.attempt(lambda: setattr(t, pn, value), False,
                         f"re-entrant {'link' if bad is not None else 'plain'} T{ti}.{pn} <- {bad if bad is not None else badv!r} "
                         f"(from a watcher of T{ti}.{pn} while it is synchronised)", ti, pn)
        w = t.param.watch(cb, [pn])
        try:
            self.do({'op': 'src', 's': s, 'p': sp, 'v': v})
        finally:
            t.param.unwatch(w)
        if fired:
            self.out.stats['probe.reentrant_rejected_assignment'] += 1

    def drain(self):
        """let every pending task run to completion (FIFO): afterwards asynchronous links mirror their reference too"""
        self.loop.drain(2000)
        for (ti, pn) in sorted(self.pending):
            ref = self.links[ti].get(pn)
            if ref is not None and ref['k'] == 'abind':
                v = eval_ref(ref, self.msrc)
                if valid_for(pn, v):
                    self.mval[ti][pn] = v
                    self.unknown.discard((ti, pn))
                else:
                    # the latest evaluation is rejected when it completes; which earlier (valid) evaluation got to
                    # complete before being superseded depends on how far the loop had been stepped: not decided
                    self.unknown.add((ti, pn))
        if self.pending:
            self.out.stats['probe.async_links_completed'] += 1
        self.pending.clear()

    def execute(self):
        out = self.out
        self.relinked = False
        self.build()
        self.check_mirror('after construction')
        src_after_relink = False
        states = []
        for i, op in enumerate(self.case['ops'], 1):
            if out.violations:
                break
            self.step = i
            out.log.append(f"{i} {op}")
            out.stats['op.' + op['op']] += 1
            self.do(op)
            if op['op'] == 'src' and self.relinked:
                src_after_relink = True
            if not out.violations:
                self.check_mirror(f"after step {i} {op['op']}")
            nl = sum(len(l) for l in self.links)
            kinds = sorted({r['k'] for l in self.links for r in l.values()})
            states.append(f"{nl}|{kinds}|{len(self.tainted)}")
        if not out.violations:
            self.step = len(self.case['ops']) + 1
            self.drain()
            self.check_mirror('after the final drain')
        out.states = tuple(states)
        st = out.stats
        prop = self.case['prop']
        sk = ','.join(op['op'] + (':' + op['ref']['k'] if op['op'] == 'link' else '') for op in self.case['ops'])
        if prop == 'C08' and src_after_relink and any(len(l) > 0 for l in self.links):
            out.sig = sk
        if prop == 'C02' and st['probe.reject_on_linked_parameter']:
            out.sig = sk


register(RefsWorld())
