"""FaultsWorld — C05: failures never corrupt the dispatch state.  Fault-site enumeration + fresh-twin differential.

Phase 1 executes the drawn workload fault-free and records the fault sites it reaches:
   ('watcher', n)        the n-th watcher invocation of the run raises
   ('update', op, k)     a value rejected by validation is inserted as the k-th key of the multi-key update `op`
   ('body', op, levels)  the context closed by `op` is left exceptionally, the exception unwinding `levels` contexts
   ('ctor', k)           a constructor call whose k-th keyword is rejected (before the workload starts)
Phase 2 re-executes the workload once per selected site with the fault injected exactly there, catches the
exception in the driver, and runs the post-fault oracle:
   C05.twin      build a FRESH class + object with the object's actual values, the same watchers and the same
                 still-open contexts, drive both with one probe history, compare the delivery histories
   C05.announce  changes applied before a rejected key are delivered no later than the raise: compared with a
                 pre-fault twin that performs the update with only the accepted prefix
Model-free: both sides are real param code; any difference is state the fault left behind.
"""
from ..kernel import Outcome, register, weighted
from .dispatch_world import Values, gen_value, PN


class Fault(Exception):
    pass


class Cancelled(BaseException):
    """an injected failure that is no Exception (as asyncio.CancelledError, KeyboardInterrupt): it escapes the watcher all the same"""


CTX_KINDS = ('batch', 'discard', 'edit_constant')


class Rig:
    """One real Parameterized object with logging/scripted watchers on a fresh class."""

    def __init__(self, world_run, label, values=None, wspecs=(), removed=(), ctxs=()):
        import param
        self.param = param
        self.R = world_run
        self.label = label
        cfg = world_run.cfg
        ns = {n: param.Parameter(default=None) for n in PN[:cfg['n_params']]}
        ns['n'] = param.Number(default=1, bounds=(0, 10))
        ns['k'] = param.Parameter(default=0, constant=True)
        ns['e'] = param.Event()
        self.cls = type('F', (param.Parameterized,), ns)
        self.names = sorted(ns)
        kw = dict(values or {})
        kw.pop('e', None)
        self.obj = self.cls(**kw)
        self.trace = []
        self.calls = 0
        self.arm = None           # raise at this watcher-invocation ordinal
        self.fired = None
        self.handles = {}
        self.wspecs = []
        self.removed = set()
        self.ctx = []             # [(kind, cm)]
        self.fresh = 0
        for i, spec in enumerate(wspecs):
            self.watch(spec, register=(i not in removed))
            if i in removed:
                self.removed.add(i)
        for kind in ctxs:
            self.open(kind)

    # -- watchers ---------------------------------------------------------------------------
    def watch(self, spec, register=True):
        wid = len(self.wspecs)
        self.wspecs.append(spec)
        if not register:
            return wid
        np_ = self.R.cfg['n_params']
        params = []
        for p in spec['ps']:
            n = p if isinstance(p, str) else PN[p % np_]
            if n not in params:
                params.append(n)
        r = self.R.vals.r

        def cb(*events):
            self.calls += 1
            evs = tuple((e.name, e.what, r(e.old), r(e.new), e.type) for e in events)
            self.trace.append(('ENTER', wid, evs, self.snapshot()))
            try:
                if self.arm is not None and self.calls == self.arm:
                    self.fired = self.calls
                    raise (Cancelled if self.R.cfg.get('base_exc') else Fault)(f"injected failure in watcher invocation {self.calls}")
                if self.calls <= 120:
                    for act in spec['script']:
                        self.action(wid, act)
            finally:
                self.trace.append(('EXIT', wid))
        self.handles[wid] = self.obj.param.watch(cb, params, what=spec.get('what', 'value'), onlychanged=spec['oc'], queued=spec['q'],
                                                 precedence=spec['prec'])
        return wid

    def unwatch(self, wi):
        live = [w for w in sorted(self.handles) if w not in self.removed]
        if not live:
            return
        wid = live[wi % len(live)]
        self.removed.add(wid)
        self.obj.param.unwatch(self.handles[wid])

    def action(self, wid, act):
        np_ = self.R.cfg['n_params']
        self.fresh += 1
        if act['a'] == 'set':
            setattr(self.obj, PN[act['p'] % np_], f"c{wid}.{self.fresh}")
        elif act['a'] == 'update':
            self.obj.param.update({PN[p % np_]: f"c{wid}.{self.fresh}.{j}" for j, p in enumerate(act['ps'])})
        elif act['a'] == 'trigger':
            self.obj.param.trigger(*[PN[p % np_] for p in act['ps']])

    # -- state ---------------------------------------------------------------------------------
    def snapshot(self):
        r = self.R.vals.r
        return tuple(r(getattr(self.obj, n)) for n in self.names)

    def values(self):
        return {n: getattr(self.obj, n) for n in self.names}

    def open(self, kind, items=None):
        pz = self.param.parameterized
        if kind == 'batch':
            cm = pz.batch_call_watchers(self.obj)
        elif kind == 'discard':
            cm = pz.discard_events(self.obj)
        elif kind == 'edit_constant':
            cm = pz.edit_constant(self.obj)
        else:
            cm = self.obj.param.update(dict(items))     # the update itself happens here
        cm.__enter__()
        self.ctx.append((kind, cm))

    def close(self, exc=None):
        if not self.ctx:
            return False
        kind, cm = self.ctx.pop()
        if exc is None:
            cm.__exit__(None, None, None)
        else:
            cm.__exit__(type(exc), exc, None)
        return True

    # -- one guarded step ----------------------------------------------------------------------------
    def step(self, tag, fn):
        self.trace.append(('STEP', tag))
        try:
            fn()
        except Exception as e:       # noqa
            self.trace.append(('EXC', type(e).__name__))
        self.trace.append(('VALS', self.snapshot()))


class _Run:
    def __init__(self, case):
        self.case = case
        self.cfg = case['cfg']
        self.vals = Values()
        self.out = Outcome()

    # -- workload interpretation ---------------------------------------------------------------------
    def do_op(self, rig, i, op, inject=None):
        """Execute top-level op on rig.  `inject` = the fault site to inject at this op, or None."""
        np_ = self.cfg['n_params']
        k = op['op']
        obj = rig.obj
        if k == 'set':
            setattr(obj, PN[op['p'] % np_], self.vals.mk(op['v']))
        elif k == 'same':
            name = PN[op['p'] % np_]
            setattr(obj, name, getattr(obj, name))
        elif k == 'num':
            obj.n = op['x']
        elif k == 'update':
            items = [('e', True) if p == 'e' else (PN[p % np_], self.vals.mk(v)) for p, v in op['items']]
            if op.get('num') is not None:
                items.append(('n', op['num']))
            self.last_update_items = list(items)
            if inject is not None and inject[0] == 'update' and inject[3] == 'notmapping':
                obj.param.update(5)         # an argument that is no mapping: the call fails as a whole
                return
            if inject is not None and inject[0] == 'update':
                bad = {'range': ('n', 999), 'type': ('n', 'not a number'), 'unknown': ('no_such_parameter', 1)}[inject[3]]
                if bad[0] == 'n':
                    items = [it for it in items if it[0] != 'n']
                items = items[:inject[2]] + [bad] + items[inject[2]:]
            obj.param.update(dict_ordered(items))
        elif k == 'trigger':
            names = [('e' if p == 'e' else PN[p % np_]) for p in op['ps']]
            if inject is not None and inject[0] == 'trigger':
                names.insert(inject[2], 'no_such_parameter')
            obj.param.trigger(*names)
        elif k == 'slot':
            # a Parameter attribute of the instance's own Parameter object (watchers registered with what='doc')
            obj.param[PN[op['p'] % np_]].doc = f"doc{op['v']}"
        elif k == 'event':
            obj.e = True
        elif k == 'constset':
            obj.k = self.vals.mk(op['v'])
        elif k == 'watch':
            rig.watch(op['w'])
        elif k == 'unwatch':
            rig.unwatch(op['w'])
        elif k == 'open':
            if op['kind'] == 'update':
                rig.open('update', [(PN[p % np_], self.vals.mk(v)) for p, v in op['items']])
            else:
                rig.open(op['kind'])
        elif k == 'close':
            if inject is not None and inject[0] == 'body':
                exc = (Cancelled if self.cfg.get('base_exc') else Fault)('injected failure in context body')
                try:
                    for _ in range(inject[2]):
                        if not rig.ctx:
                            break
                        rig.close(exc)
                finally:
                    pass
                raise exc
            rig.close()

    def run_workload(self, rig, upto=None, site=None):
        """Returns list of reachable sites when site is None (dry run)."""
        sites = []
        ops = self.case['ops']
        for i, op in enumerate(ops):
            if upto is not None and i > upto:
                break
            inject = None
            if site is not None and site[0] in ('update', 'body', 'trigger') and site[1] == i:
                inject = site
            depth = len(rig.ctx)
            before = rig.calls
            rig.trace.append(('OP', i, op['op']))
            try:
                self.do_op(rig, i, op, inject)
            except (Fault, Cancelled):
                rig.trace.append(('FAULT',))
            except Exception as e:       # noqa  (validation errors of injected values, TypeError of constant sets)
                rig.trace.append(('EXC', type(e).__name__))
            rig.trace.append(('VALS', rig.snapshot()))
            if site is None:
                if op['op'] == 'update':
                    n_items = len(op['items'])
                    for kk in range(n_items + 1):
                        for how in ('range', 'type', 'unknown'):
                            sites.append(('update', i, kk, how))
                    sites.append(('update', i, 0, 'notmapping'))
                if op['op'] == 'trigger':
                    for kk in range(len(op['ps']) + 1):
                        sites.append(('trigger', i, kk))
                if op['op'] == 'close' and depth:
                    for lv in range(1, depth + 1):
                        sites.append(('body', i, lv))
                for c in range(before + 1, rig.calls + 1):
                    sites.append(('watcher', i, c))
        return sites

    # -- the probe -----------------------------------------------------------------------------------------
    def probe(self, rig):
        obj = rig.obj
        P = rig.param
        np_ = self.cfg['n_params']
        probe_spec = {'ps': [0, 1 % np_], 'oc': True, 'q': False, 'prec': 1, 'script': []}
        rig.step('P1 watch changes-only', lambda: rig.watch(probe_spec))
        rig.step('P2 same-value set', lambda: setattr(obj, 'p0', getattr(obj, 'p0')))
        rig.step('P3 changing set', lambda: setattr(obj, 'p0', 101))

        def batch():
            with P.parameterized.batch_call_watchers(obj):
                obj.p0 = 102
                setattr(obj, PN[1 % np_], 103)
        rig.step('P4 batch of two sets', batch)
        rig.step('P5 trigger', lambda: obj.param.trigger(PN[1 % np_]))
        rig.step('P6 event', lambda: setattr(obj, 'e', True))
        rig.step('P7 constant set', lambda: setattr(obj, 'k', self.probe_const))
        rig.step('P8 update', lambda: obj.param.update(p0=104, n=5))
        rig.step('P9 event via update', lambda: obj.param.update(e=True))

        slot_spec = {'ps': [0], 'what': 'label', 'oc': True, 'q': False, 'prec': 1, 'script': []}
        rig.step('P10a watch a Parameter attribute', lambda: rig.watch(slot_spec))
        rig.step('P10b set the Parameter attribute', lambda: setattr(obj.param['p0'], 'label', 'probe label'))
        rig.step('P11 set after close', lambda: setattr(obj, PN[1 % np_], 105))
        rig.step('P12 event after close', lambda: setattr(obj, 'e', True))
        rig.step('P13 trigger event', lambda: obj.param.trigger('e'))
        rig.step('P14 constant set outside', lambda: setattr(obj, 'k', self.probe_const))

    def make_twin(self, rig, label='twin'):
        vals = rig.values()
        ctxs = [k for k, _ in rig.ctx]
        t = Rig(self, label, values=vals, wspecs=rig.wspecs, removed=rig.removed, ctxs=ctxs)
        t.fresh, t.calls = rig.fresh, rig.calls
        return t

    def compare_probe(self, rig, twin, site, start_r, start_t):
        a = rig.trace[start_r:]
        b = twin.trace[start_t:]
        step = None
        for x, y in zip(a, b):
            if x[0] == 'STEP':
                step = x[1]
            if x != y:
                return self.classify(step, x, y, site)
        if len(a) != len(b):
            return ('C05.twin.dispatch', f"after fault {site}: probe histories differ in length ({len(a)} vs twin {len(b)}) at step {step}")
        return None

    def classify(self, step, x, y, site):
        detail = f"after fault {site}: at probe step [{step}] the object did {x!r}, a fresh twin did {y!r}"
        if x[0] == 'VALS' and y[0] == 'VALS':
            names = sorted(list(PN[:self.cfg['n_params']]) + ['n', 'k', 'e'])
            diff = [n for n, u, v in zip(names, x[1], y[1]) if u != v]
            if diff == ['e']:
                return ('C05.twin.event_not_reset', detail)
            if diff == ['k']:
                return ('C05.twin.constant_flag', detail)
            return ('C05.twin.values', detail)
        if x[0] == 'ENTER' and y[0] == 'ENTER' and x[1] == y[1] and x[3] == y[3]:
            tx = [e[4] for e in x[2]]
            ty = [e[4] for e in y[2]]
            if tx != ty and [e[:4] for e in x[2]] == [e[:4] for e in y[2]]:
                return ('C05.twin.event_type', detail)
        if x[0] == 'EXC' or y[0] == 'EXC':
            if step and 'constant' in step:
                return ('C05.twin.constant_flag', detail)
            return ('C05.twin.exception', detail)
        if step and step.startswith(('P2', 'P3')):
            return ('C05.twin.immediate_dispatch', detail)
        return ('C05.twin.dispatch', detail)

    # -- main ---------------------------------------------------------------------------------------------------
    def execute(self):
        out = self.out
        cfg = self.cfg
        self.probe_const = self.vals.reg(['probe-constant'])
        # phase 0: constructor faults
        if cfg.get('ctor_fault'):
            self.ctor_fault()
        # phase 1: dry run, enumerate sites
        dry = Rig(self, 'dry', wspecs=cfg['watchers'])
        sites = self.run_workload(dry)
        out.stats['sites_reached'] += len(sites)
        out.log.append(f"sites={len(sites)}")
        if not sites:
            # fault-free configuration: the probe must agree with a twin anyway
            self.post_fault(dry, ('none',))
            return
        if cfg.get('fault_free'):
            self.post_fault(dry, ('none',))
            return
        chosen = []
        if cfg['sites'] == 'all':
            chosen = list(sites)
        else:
            for f in cfg['sites']:
                s = sites[min(len(sites) - 1, int(f * len(sites)))]
                if s not in chosen:
                    chosen.append(s)
        for s in chosen:
            if out.violations:
                break
            self.one_site(s)
        # seeded pairs: a second fault after the first, same run
        for f1, f2 in cfg.get('pairs', []):
            if out.violations:
                break
            s1 = sites[min(len(sites) - 1, int(f1 * len(sites)))]
            s2 = sites[min(len(sites) - 1, int(f2 * len(sites)))]
            if s1[1] < s2[1]:
                self.one_site(s1, second=s2)

    def one_site(self, site, second=None):
        out = self.out
        vals_n = self.vals.n
        rig = Rig(self, 'real', wspecs=self.cfg['watchers'])
        ops = self.case['ops']
        kind = site[0]
        out.log.append(f"--- site {site}" + (f" then {second}" if second else ''))
        # announce oracle needs the pre-fault twin for update sites outside any surrounding batch
        fired = False
        for i, op in enumerate(ops):
            cur = None
            for s in (site, second):
                if s is not None and s[1] == i:
                    cur = s
            if cur is not None and cur[0] == 'watcher':
                rig.arm = cur[2]
            pre = None
            if cur is not None and cur[0] == 'update' and not rig.ctx and cur[2] > 0:
                pre = self.make_twin(rig, 'pre')
            t0 = len(rig.trace)
            rig.trace.append(('OP', i, op['op']))
            exc = None
            try:
                self.do_op(rig, i, op, cur if cur is not None and cur[0] in ('update', 'body', 'trigger') else None)
            except (Fault, Cancelled):
                exc = 'Fault'
            except Exception as e:      # noqa
                exc = type(e).__name__
            rig.trace.append(('RAISED', exc))
            rig.trace.append(('VALS', rig.snapshot()))
            rig.arm = None
            if cur is not None:
                if exc is not None:
                    fired = True
                    out.stats[f"fault.{cur[0]}" + (f".{cur[3]}" if cur[0] == 'update' else '')] += 1
                    if rig.ctx:
                        out.stats['probe.fault_inside_open_context'] += 1
                if pre is not None and exc is not None:
                    self.announce(rig, pre, op, cur, t0)
                    if out.violations:
                        return
                last = cur is (second if second is not None else site)
                if last or self.cfg.get('probe_each'):
                    if self.cfg.get('continue_after') and last:
                        continue
                    self.post_fault(rig, cur)
                    if last or out.violations:
                        break
        else:
            # workload ran to its end (continue_after, or the site was not reached again)
            self.post_fault(rig, site)
        for e in rig.trace[-40:]:
            out.log.append(repr(e))
        if fired:
            out.stats['faulted_runs'] += 1
        else:
            out.stats['site_not_reached_in_phase2'] += 1

    def post_fault(self, rig, site):
        out = self.out
        # (a) still deferred inside a surrounding batch: an assignment made now must not be delivered before the
        #     surrounding context exits.  Checked directly (a twin cannot replicate events legitimately queued
        #     before the fault).
        if rig.ctx:
            deferring = any(k in ('batch', 'discard') for k, _ in rig.ctx)
            n0 = len(rig.trace)
            rig.step('D1 set inside surrounding context', lambda: setattr(rig.obj, 'p0', 100))
            if deferring and any(e[0] == 'ENTER' for e in rig.trace[n0:]):
                out.violations.append(('C05.twin.deferral', None,
                                       f"after fault {site}: an assignment inside the still-open {[k for k, _ in rig.ctx]} was delivered immediately"))
                return
            if deferring:
                out.stats['probe.deferral_checked_inside_surrounding_batch'] += 1

            def closeall():
                while rig.ctx:
                    rig.close()
            rig.step('D2 close surrounding contexts', closeall)
            rig.ctx = []
        # (b) from here on the object must be indistinguishable from a freshly built one
        twin = self.make_twin(rig)
        s_r, s_t = len(rig.trace), len(twin.trace)
        if rig.snapshot() != twin.snapshot():
            d = self.classify('P0 construct twin', ('VALS', rig.snapshot()), ('VALS', twin.snapshot()), site)
            out.violations.append((d[0], None, d[1]))
            return
        self.probe(rig)
        self.probe(twin)
        out.stats['probes'] += 1
        d = self.compare_probe(rig, twin, site, s_r, s_t)
        if d is not None:
            out.violations.append((d[0], None, d[1]))
            out.log.append('--- probe on object')
            for e in rig.trace[s_r:]:
                out.log.append(repr(e))
            out.log.append('--- probe on twin')
            for e in twin.trace[s_t:]:
                out.log.append(repr(e))

    def announce(self, rig, pre, op, site, t0):
        """pre-twin performs the update with only the keys accepted before the rejected one."""
        np_ = self.cfg['n_params']
        base = [it for it in self.last_update_items if not (site[3] in ('range', 'type') and it[0] == 'n')]
        accepted = base[:site[2]]
        s_t = len(pre.trace)
        try:
            pre.obj.param.update(dict_ordered(accepted))
        except Exception as e:      # noqa
            pre.trace.append(('EXC', type(e).__name__))
        a = [e for e in rig.trace[t0:] if e[0] in ('ENTER', 'EXIT')]
        b = [e for e in pre.trace[s_t:] if e[0] in ('ENTER', 'EXIT')]
        # later keys that overwrite an accepted key do not exist here (keys are unique), so histories must agree
        if a != b:
            self.out.violations.append(('C05.announce', None,
                                        f"update {site}: keys accepted before the rejected one were announced as {a!r} by the time the call "
                                        f"raised; a fresh object updated with just those keys announces {b!r}"))

    def ctor_fault(self):
        import param
        rig = Rig(self, 'ctor')
        bad = self.cfg['ctor_fault']
        kw = {'p0': 1, 'n': 999 if bad == 'range' else 'x', 'p1': 2}
        try:
            rig.cls(**kw)
            self.out.violations.append(('C05.ctor', None, f"constructor accepted {kw}"))
            return
        except Exception:
            self.out.stats['fault.ctor'] += 1
        # the class must behave like a fresh one afterwards
        a = rig.cls(p0=5)
        twin = Rig(self, 'ctor-twin', values={'p0': 5})
        log_a, log_b = [], []
        a.param.watch(lambda *es: log_a.append([(e.name, e.new, e.type) for e in es]), ['p0', 'n'])
        twin.obj.param.watch(lambda *es: log_b.append([(e.name, e.new, e.type) for e in es]), ['p0', 'n'])
        for o in (a, twin.obj):
            o.p0 = 6
            o.param.update(p0=7, n=3)
            try:
                o.k = 3
            except TypeError:
                pass
        if log_a != log_b or a.k != twin.obj.k:
            self.out.violations.append(('C05.ctor', None, f"after a rejected constructor call a new instance logs {log_a}, a fresh class {log_b}"))


def dict_ordered(items):
    d = {}
    for k, v in items:
        d[k] = v
    return d


class FaultsWorld:
    name = 'faults'
    props = ('C05',)
    levels = {'C05': 'fault_enumeration'}
    chunk = 150
    budget = {'quick': dict(runs=6000, wall=180.0), 'thorough': dict(runs=200000, wall=900.0)}
    time_unit = 'n/a: logical steps only'
    state_measure = 'distinct (fault kind, open-context stack at the fault, first differing probe step or "agree") tuples'
    components = {
        'real': ['param.parameterized: Parameter.__set__, Event.__set__, Parameters.update/_update/trigger/_call_watcher/'
                 '_batch_call_watchers, batch_call_watchers, discard_events, edit_constant, _ParametersRestorer',
                 'the fresh twin (also real param code on a fresh class)'],
        'stub': ['user callbacks (harness watchers: log, scripted re-entrant assignments, raise at the injected ordinal)',
                 'context-manager bodies (entered/left by the driver; exceptional exit = __exit__ with the injected exception)'],
    }
    rules = {'C05': 'case = generated workload (sets, updates, triggers, Event sets, constant sets, watch/unwatch, nested '
                    'batch/discard/edit_constant/update contexts, scripted callbacks); phase 1 enumerates every fault site the '
                    'workload reaches (k-th watcher invocation, k-th key of each update x 3 rejection kinds, each exceptional context '
                    'exit x unwind depth, rejected constructor); phase 2 re-executes once per selected site (quick: seeded sample of <=8; '
                    'thorough: all + seeded pairs) and runs the twin probe; evaluations counts workloads; non-trivial = a fault actually '
                    'fired; distinct = distinct (site kind, context stack, position) signatures.'}
    assumptions = {'C05': ['the twin is built through the public constructor with the object\'s actual values on a fresh class',
                           'which of the remaining watchers of the in-flight event still run after one raised is not checked',
                           'update() restorer contexts still open at the probe are closed first (a twin cannot know their restore values)']}

    def gen(self, rng, prop, tier, avoid):
        big = tier == 'thorough'
        np_ = rng.choice([2, 3, 4])
        cfg = {'n_params': np_, 'domain': rng.choice(['ints', 'numeric', 'text', 'containers']),
               'n_inst': 1, 'cls_obj': False, 'slots': False, 'event': True, 'attr_watchers': rng.random() < 0.3,
               'p_queued': rng.choice([0.0, 0.2, 0.4]), 'p_script': rng.choice([0.0, 0.3, 0.6]),
               'continue_after': rng.random() < 0.3, 'probe_each': False,
               'fault_free': rng.random() < 0.1,
               'base_exc': rng.random() < 0.3,
               'ctor_fault': rng.choice([None, None, None, 'range', 'type'])}
        from .dispatch_world import DispatchWorld
        dw = DispatchWorld()
        ws = []
        for _ in range(rng.randint(1, 5)):
            w = dw.gen_watcher(rng, cfg)
            w['o'] = 0
            w['what'] = 'value'
            w['mode'] = 'args'
            w['script'] = [a for a in w['script'] if a['a'] in ('set', 'update', 'trigger')]
            for a in w['script']:
                a['o'] = 0
            if rng.random() < 0.25:
                w['ps'] = list(w['ps']) + [rng.choice(['e', 'n'])]
            if cfg['attr_watchers'] and rng.random() < 0.45:
                w['what'] = 'doc'
                w['ps'] = [p for p in w['ps'] if not isinstance(p, str)] or [0]
            ws.append(w)
        if cfg['attr_watchers'] and np_ >= 2 and rng.random() < 0.6:
            # bias: two watchers of the same Parameter attribute, the first one queued and assigning a watched parameter - a
            # failure of the second one then finds a deferred event in the queue
            ws = ws[:3] + [
                {'mode': 'args', 'o': 0, 'oc': False, 'prec': 0, 'ps': [0], 'q': True, 'script': [{'a': 'set', 'o': 0, 'p': 1}], 'what': 'doc'},
                {'mode': 'args', 'o': 0, 'oc': False, 'prec': 0, 'ps': [0], 'q': rng.random() < 0.3, 'script': [], 'what': 'doc'},
                {'mode': 'args', 'o': 0, 'oc': rng.random() < 0.5, 'prec': rng.choice([0, 1]), 'ps': [1], 'q': False, 'script': [], 'what': 'value'}]
        cfg['watchers'] = ws
        n_ops = min(30 if big else 18, 2 + int(rng.expovariate(1 / (10.0 if big else 7.0))))
        ops = []
        depth = 0
        for _ in range(n_ops):
            k = weighted(rng, [('set', 6), ('same', 1.5), ('update', 5), ('trigger', 2), ('event', 1.5), ('num', 1), ('constset', 1),
                               ('slot', 3 if cfg['attr_watchers'] else 0),
                               ('watch', 0.7), ('unwatch', 0.7), ('open', 3 if depth < 4 else 0), ('close', 3 if depth else 0)])
            if k == 'set':
                ops.append({'op': 'set', 'p': rng.randrange(np_), 'v': gen_value(rng, cfg['domain'])})
            elif k == 'same':
                ops.append({'op': 'same', 'p': rng.randrange(np_)})
            elif k == 'slot':
                ops.append({'op': 'slot', 'p': rng.randrange(np_), 'v': rng.randint(0, 3)})
            elif k == 'num':
                ops.append({'op': 'num', 'x': rng.randint(0, 10)})
            elif k == 'update':
                ps = rng.sample(range(np_), rng.randint(1, np_))
                op = {'op': 'update', 'items': [[p, gen_value(rng, cfg['domain'])] for p in ps]}
                if rng.random() < 0.3:
                    op['num'] = rng.randint(0, 10)
                if rng.random() < 0.2:
                    # an Event parameter among the keys (outside and inside open contexts)
                    op['items'].insert(rng.randint(0, len(op['items'])), ['e', {'k': 'bool', 'x': True}])
                ops.append(op)
            elif k == 'trigger':
                ps = [rng.randrange(np_)]
                if rng.random() < 0.3:
                    ps.append('e')
                ops.append({'op': 'trigger', 'ps': ps})
            elif k == 'event':
                ops.append({'op': 'event'})
            elif k == 'constset':
                ops.append({'op': 'constset', 'v': {'k': 'int', 'x': rng.randint(0, 3)}})
            elif k == 'watch':
                w = dw.gen_watcher(rng, cfg, simple=True)
                w['o'], w['what'], w['mode'] = 0, 'value', 'args'
                ops.append({'op': 'watch', 'w': w})
            elif k == 'unwatch':
                ops.append({'op': 'unwatch', 'w': rng.randint(0, 5)})
            elif k == 'open':
                kind = weighted(rng, [('batch', 4), ('discard', 1.5), ('edit_constant', 1.5), ('update', 1.5)])
                op = {'op': 'open', 'kind': kind}
                if kind == 'update':
                    op['items'] = [[rng.randrange(np_), gen_value(rng, cfg['domain'])]]
                depth += 1
                ops.append(op)
            else:
                depth -= 1
                ops.append({'op': 'close'})
        if big:
            cfg['sites'] = 'all' if rng.random() < 0.5 else [rng.random() for _ in range(12)]
            cfg['pairs'] = [[rng.random(), rng.random()] for _ in range(4)]
        else:
            cfg['sites'] = [rng.random() for _ in range(rng.randint(3, 8))]
            cfg['pairs'] = [[rng.random(), rng.random()]] if rng.random() < 0.3 else []
        return {'cfg': cfg, 'ops': ops}

    def skeleton(self, case):
        return [op['op'] + (':' + op['kind'] if op['op'] == 'open' else '') for op in case['ops']]

    def simplify(self, case):
        cfg = case['cfg']
        if cfg['sites'] == 'all' or len(cfg['sites']) > 1:
            sites = [i / 16.0 for i in range(16)] if cfg['sites'] == 'all' else cfg['sites']
            for s in sites:
                yield {**case, 'cfg': {**cfg, 'sites': [s], 'pairs': []}}
        if cfg.get('pairs'):
            yield {**case, 'cfg': {**cfg, 'pairs': []}}
        if cfg.get('ctor_fault'):
            yield {**case, 'cfg': {**cfg, 'ctor_fault': None}}
        if cfg.get('continue_after'):
            yield {**case, 'cfg': {**cfg, 'continue_after': False}}
        ws = cfg['watchers']
        for i in range(len(ws) - 1, -1, -1):
            yield {**case, 'cfg': {**cfg, 'watchers': ws[:i] + ws[i + 1:]}}
        for i, w in enumerate(ws):
            for key, simple in (('script', []), ('q', False), ('prec', 0), ('oc', False)):
                if w[key] != simple:
                    yield {**case, 'cfg': {**cfg, 'watchers': ws[:i] + [{**w, key: simple}] + ws[i + 1:]}}
            if len(w['ps']) > 1:
                for j in range(len(w['ps'])):
                    yield {**case, 'cfg': {**cfg, 'watchers': ws[:i] + [{**w, 'ps': w['ps'][:j] + w['ps'][j + 1:]}] + ws[i + 1:]}}
        ops = case['ops']
        for i, op in enumerate(ops):
            if op['op'] == 'set' and op['v'] != {'k': 'int', 'x': 1}:
                yield {**case, 'ops': ops[:i] + [{**op, 'v': {'k': 'int', 'x': 1}}] + ops[i + 1:]}
            if op['op'] == 'update' and len(op['items']) > 1:
                for j in range(len(op['items'])):
                    yield {**case, 'ops': ops[:i] + [{**op, 'items': op['items'][:j] + op['items'][j + 1:]}] + ops[i + 1:]}
        if len(cfg['sites']) == 1 and cfg['sites'] != 'all':
            for s in (0.0, 0.25, 0.5, 0.75, 0.99):
                if cfg['sites'][0] != s:
                    yield {**case, 'cfg': {**cfg, 'sites': [s]}}

    def run(self, case):
        r = _Run(case)
        r.execute()
        out = r.out
        st = out.stats
        if st['faulted_runs'] or st['fault.ctor']:
            out.sig = '|'.join(l for l in out.log if l.startswith('--- site'))[:400] + '|' + ','.join(self.skeleton(case))
        out.states = tuple(l for l in out.log if l.startswith('--- site'))
        return out


register(FaultsWorld())
