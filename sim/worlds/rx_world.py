"""RxWorld — C09: reactive expressions evaluate to the plain-Python result on the current inputs.

Real: param.reactive.rx (operator table, __getattribute__/__call__ method recording, _resolve/_eval_operation, dirty flags,
error state, invalidation watchers), reactive_ops helpers (pipe, where, and_, or_, not_, bool, len, in_, is_, is_not, map,
watch, value), bind, Parameters as inputs.
Model: a plain evaluator over the same typed expression DAG.  The DAG is built once while every input is valid; the
history then updates inputs (including values that make nodes raise: division by zero, bad index, missing key, wrong
type) interleaved with reads of arbitrary nodes - reads fill caches and are therefore first-class operations.
"""
import math
import operator

from ..kernel import Outcome, register, weighted

BIN_INT = {
    'add': operator.add, 'sub': operator.sub, 'mul': operator.mul, 'floordiv': operator.floordiv, 'mod': operator.mod,
    'truediv': operator.truediv, 'and': operator.and_, 'or': operator.or_, 'xor': operator.xor,
    'lshift': operator.lshift, 'rshift': operator.rshift, 'pow': operator.pow, 'divmod': divmod,
}
CMP = {'eq': operator.eq, 'ne': operator.ne, 'lt': operator.lt, 'le': operator.le, 'gt': operator.gt, 'ge': operator.ge}
UN = {'neg': operator.neg, 'pos': operator.pos, 'abs': abs, 'invert': operator.inv, 'floor': math.floor, 'ceil': math.ceil,
      'trunc': math.trunc, 'round': round}
FUNCS = {
    'inc': lambda x: x + 1, 'dbl': lambda x: x * 2, 'tostr': lambda x: f"<{x}>", 'sum': lambda x: sum(x), 'rev': lambda x: list(reversed(x)),
    'first': lambda x: x[0], 'addk': lambda x, k: x + k, 'scale': lambda x, k=2: x * k, 'keys': lambda d: sorted(d),
    'clamp': lambda x, lo, hi: max(lo, min(hi, x)),
}


class Mat:
    """an operand that only knows how to matrix-multiply with plain integers (anything else is left to the other operand)"""

    def __init__(self, v):
        self.v = v

    def __matmul__(self, o):
        if isinstance(o, int) and not isinstance(o, bool):
            return self.v * o
        return NotImplemented

    def __rmatmul__(self, o):
        if isinstance(o, int) and not isinstance(o, bool):
            return o * self.v + 1
        return NotImplemented


class Raised(Exception):
    def __init__(self, cls):
        self.cls = cls


def ev(nodes, inputs, i, memo):
    """plain-Python evaluation of node i on the current input values (lazy, memoised per evaluation)"""
    if i in memo:
        r = memo[i]
        if isinstance(r, Raised):
            raise r
        return r
    d = nodes[i]
    try:
        r = _ev(nodes, inputs, d, memo)
    except Raised as e:
        memo[i] = e
        raise
    except Exception as e:      # noqa
        x = Raised(type(e).__name__)
        memo[i] = x
        raise x
    memo[i] = r
    return r


def arg(nodes, inputs, a, memo):
    if isinstance(a, dict) and 'node' in a:
        return ev(nodes, inputs, a['node'], memo)
    if isinstance(a, dict) and 'input' in a:       # a raw Parameter / bound function handed over as an argument
        return inputs[a['input']]
    if isinstance(a, dict) and 'const' in a:
        return a['const']
    return a


def _ev(nodes, inputs, d, memo):
    n = d['n']
    A = lambda a: arg(nodes, inputs, a, memo)      # noqa
    if n == 'in':
        return inputs[d['i']]
    if n == 'bin':
        f = BIN_INT.get(d['op']) or CMP[d['op']]
        return f(A(d['a']), A(d['b']))
    if n == 'un':
        return UN[d['op']](A(d['a']))
    if n == 'idx':
        return A(d['a'])[A(d['k'])]
    if n == 'slice':
        return A(d['a'])[A(d['lo']):A(d['hi'])]
    if n == 'meth':
        return getattr(A(d['a']), d['m'])(*[A(x) for x in d['args']])
    if n == 'attr':
        return getattr(A(d['a']), d['m'])
    if n == 'pipe':
        return FUNCS[d['f']](A(d['a']), *[A(x) for x in d['args']])
    if n == 'bindk':
        return FUNCS['addk'](x=A(d['a']), k=A(d['k']))
    if n == 'matmul':
        return (Mat(d['k']) @ A(d['a'])) if d['refl'] else (A(d['a']) @ Mat(d['k']))
    if n == 'pow3':
        return pow(A(d['a']), d['e'], d['m'])
    if n == 'where':
        if d.get('boxed'):
            # the branches are containers holding the operands
            return [A(d['x']), 0] if A(d['c']) else [A(d['y']), 1]
        return A(d['x']) if A(d['c']) else A(d['y'])
    if n == 'help':
        h = d['h']
        a = A(d['a'])
        if h == 'and_':
            return a and A(d['b'])
        if h == 'or_':
            return a or A(d['b'])
        if h == 'not_':
            return not a
        if h == 'bool':
            return bool(a)
        if h == 'len':
            return len(a)
        if h == 'in_':
            return a in A(d['b'])
        if h == 'is_':
            return a is A(d['b'])
        if h == 'is_not':
            return a is not A(d['b'])
        if h == 'map':
            return [FUNCS[d['f']](v) for v in a]
    raise ValueError(n)


def eq_val(a, b):
    if type(a) is not type(b):
        return False
    if isinstance(a, float) and a != a and b != b:
        return True
    return a == b


def loosely_equal(a, b):
    try:
        return eq_val(a, b) or bool(a == b)
    except Exception:
        return False


class RxWorld:
    name = 'rx'
    props = ('C09',)
    levels = {'C09': 'exploration'}
    chunk = 200
    budget = {'quick': dict(runs=10000, wall=180.0), 'thorough': dict(runs=500000, wall=900.0)}
    time_unit = 'n/a: logical steps only'
    state_measure = 'distinct (node kind read, cache state: fresh/dirty/error, value type) triples at reads'
    components = {'real': ['param.reactive.rx: operator table (normal and reflected), method/attribute recording, _resolve/_eval_operation, dirty '
                           'flags, error state, invalidation watchers', 'reactive_ops: pipe, where, and_, or_, not_, bool, len, in_, is_, is_not, map, '
                           'watch, value', 'param.bind, Parameters and bound functions as inputs and as arguments'],
                  'stub': ['plain evaluator over the same expression DAG (oracle)', 'functions given to pipe/map (pure harness functions)']}
    rules = {'C09': 'case = typed expression DAG (depth <= 5, shared sub-expressions, inputs used as root and as argument; every binary operator in '
                    'normal and reflected position, unary operators, indexing and slicing with reactive indices, method calls and attributes, pipe, '
                    'nested where, and_ or_ not_ bool len in_ is_ is_not map) over 2-4 inputs (rx roots, Parameters, bound functions) built while all '
                    'inputs are valid + history of input updates (incl. values that make nodes raise, later repaired) interleaved with reads of any node '
                    'and watch registrations; non-trivial = a node was read, an input it depends on changed, and it was read again, with at least one '
                    'node raising in between; distinct = distinct (DAG shape, op sequence) pairs.'}
    assumptions = {'C09': ['arguments of and_/or_ are inputs or constants (rx resolves all arguments eagerly; Python short-circuits)',
                           'expressions are built while inputs are valid (building on top of a currently failing expression evaluates it)',
                           'extra watch calls with an unchanged value and identity (vs equality) of results are not checked',
                           'coroutine stages belong to C10']}

    # ------------------------------------------------------------------------------------------ generation
    def gen(self, rng, prop, tier, avoid):
        big = tier == 'thorough'
        n_in = rng.randint(2, 4)
        inputs = []
        for i in range(n_in):
            t = ['int', 'int', 'list', 'str', 'dict'][i] if i < 2 or rng.random() < 0.7 else 'int'
            if i >= 2:
                t = rng.choice(['int', 'list', 'str', 'dict'])
            inputs.append({'k': rng.choice(['rx', 'rx', 'param', 'bind']), 't': t, 'v': self.gen_value(rng, t, valid=True)})
        nodes = [{'n': 'in', 'i': i, 't': inp['t']} for i, inp in enumerate(inputs)]
        n_nodes = rng.randint(3, 14 if big else 10)
        no_rshift = 'reflected_shift' in avoid
        no_nested_where = 'nested_where' in avoid
        for _ in range(n_nodes):
            d = self.gen_node(rng, nodes, inputs, no_rshift, no_nested_where)
            if d is not None:
                d['depth'] = 1 + max([nodes[c].get('depth', 0) for c in self.children(d)] + [0])
                if d['depth'] <= 5:
                    # the DAG is built while every input is valid: keep only nodes that evaluate on the initial inputs
                    try:
                        ev(nodes + [d], [inp['v'] for inp in inputs], len(nodes), {})
                    except Raised:
                        continue
                    nodes.append(d)
        cfg = {'inputs': inputs, 'nodes': nodes, 'avoid': sorted(avoid)}
        n_lazy = 0
        if rng.random() < 0.5 and len(nodes) - n_in > 1:
            n_lazy = rng.randint(1, min(4, len(nodes) - n_in - 1))
            cfg['lazy_from'] = len(nodes) - n_lazy
        n_ops = min(50 if big else 30, 3 + int(rng.expovariate(1 / (14.0 if big else 9.0))))
        ops = []
        for _ in range(n_ops):
            on_holder = [i for i, inp in enumerate(inputs) if inp['k'] != 'rx']
            k = weighted(rng, [('set', 5), ('bad', 1.5), ('read', 7), ('watch', 1), ('build', 1.5 if n_lazy else 0), ('mut', 0.8),
                               ('follow', 0.8), ('setmany', 1.5 if len(on_holder) > 1 else 0)])
            if k == 'follow':
                ops.append({'op': 'follow', 'n': rng.randrange(len(nodes) - n_lazy)})
                continue
            if k == 'setmany':
                chosen = rng.sample(on_holder, rng.randint(2, min(3, len(on_holder))))
                ops.append({'op': 'setmany', 'items': [[i, self.gen_value(rng, inputs[i]['t'], valid=rng.random() < 0.9)] for i in chosen]})
                continue
            if k == 'mut':
                ops.append({'op': 'mut', 'i': rng.randrange(n_in), 'v': rng.randint(1, 9), 'batch': rng.random() < 0.5})
                continue
            if k == 'build':
                ops.append({'op': 'build'})
                continue
            if k in ('set', 'bad'):
                i = rng.randrange(n_in)
                t = inputs[i]['t']
                ops.append({'op': 'set', 'i': i, 'v': self.gen_value(rng, t, valid=(k == 'set'))})
            elif k == 'read':
                ops.append({'op': 'read', 'n': rng.randrange(len(nodes) - n_lazy)})
            else:
                ops.append({'op': 'watch', 'n': rng.randrange(len(nodes) - n_lazy)})
        return {'cfg': cfg, 'ops': ops}

    @staticmethod
    def gen_value(rng, t, valid):
        if t == 'int':
            # True and 1.0 compare equal to 1: an update that changes the type only
            return rng.choice([1, 2, 3, 5, 7, 1, True, 1.0]) if valid else rng.choice([0, 0, -3, 'oops', 2.5])
        if t == 'list':
            return [rng.randint(1, 9) for _ in range(rng.randint(3, 5))] if valid else rng.choice([[], [4], None])
        if t == 'str':
            return rng.choice(['abc', 'Hello', 'xyz12']) if valid else rng.choice(['', 'q', 5])
        if t == 'dict':
            return {'a': rng.randint(1, 9), 'b': rng.randint(1, 9)} if valid else rng.choice([{}, {'b': 1}])
        raise ValueError(t)

    @staticmethod
    def children(d):
        out = []
        for k, v in d.items():
            vs = v if isinstance(v, list) else [v]
            for x in vs:
                if isinstance(x, dict) and 'node' in x:
                    out.append(x['node'])
        return out

    def gen_node(self, rng, nodes, inputs, no_rshift, no_nested_where):
        by_t = {}
        for i, d in enumerate(nodes):
            by_t.setdefault(d['t'], []).append(i)

        def pick(t):
            if t not in by_t:
                return None
            # prefer recent nodes so that expressions get deep
            c = by_t[t]
            return {'node': c[-1] if rng.random() < 0.4 else rng.choice(c)}

        def operand(t):
            """a node, a raw input (Parameter / bound function as argument) or a constant of type t"""
            r = rng.random()
            if r < 0.6 and t in by_t:
                return pick(t)
            if r < 0.75:
                cands = [i for i, inp in enumerate(inputs) if inp['t'] == t and inp['k'] in ('param', 'bind')]
                if cands:
                    return {'input': rng.choice(cands)}
            return {'const': {'int': rng.choice([1, 2, 3, 4]), 'str': rng.choice(['ab', 'z']), 'list': [1, 2], 'bool': True,
                              'dict': {'a': 1}}.get(t, 1)}
        kind = weighted(rng, [('bin', 6), ('cmp', 2), ('un', 2), ('idx', 2), ('slice', 1), ('meth', 2), ('attr', 0.7), ('pipe', 2), ('bindk', 1), ('matmul', 0.7), ('pow3', 0.5),
                              ('where', 2), ('help', 4), ('strbin', 1), ('listbin', 1)])
        if kind == 'bin':
            op = rng.choice(sorted(BIN_INT))
            a = pick('int')
            if a is None:
                return None
            b = operand('int')
            if op in ('pow', 'lshift', 'rshift'):
                b = {'const': rng.choice([1, 2, 3])}          # keep numbers printable
            rev = rng.random() < 0.35
            if rev:
                if op in ('pow', 'lshift', 'rshift'):
                    # reflected form: the reactive operand is the exponent / shift count - use a raw input (small int)
                    a = {'node': rng.choice([i for i, inp in enumerate(inputs) if inp['t'] == 'int'] or [a['node']])}
                a, b = ({'const': rng.choice([1, 2, 3, 6])}, a)
                if no_rshift and op in ('lshift', 'rshift'):
                    op = 'add'
            t = 'tuple' if op == 'divmod' else ('float' if op == 'truediv' else 'int')
            return {'n': 'bin', 'op': op, 'a': a, 'b': b, 't': t}
        if kind == 'cmp':
            a = pick('int')
            if a is None:
                return None
            b = operand('int')
            if rng.random() < 0.3:
                a, b = {'const': rng.choice([2, 5])}, a
            return {'n': 'bin', 'op': rng.choice(sorted(CMP)), 'a': a, 'b': b, 't': 'bool'}
        if kind == 'un':
            a = pick(rng.choice(['int', 'int', 'float'])) or pick('int')
            if a is None:
                return None
            op = rng.choice(sorted(UN))
            if nodes[a['node']]['t'] == 'float' and op == 'invert':
                op = 'neg'
            return {'n': 'un', 'op': op, 'a': a, 't': 'int' if nodes[a['node']]['t'] == 'int' or op in ('floor', 'ceil', 'trunc', 'round') else 'float'}
        if kind == 'idx':
            t = rng.choice(['list', 'str', 'dict'])
            a = pick(t)
            if a is None:
                return None
            if t == 'dict':
                return {'n': 'idx', 'a': a, 'k': {'const': rng.choice(['a', 'b'])}, 't': 'int'}
            k = operand('int') if rng.random() < 0.5 else {'const': rng.choice([0, 1, -1, 2])}
            return {'n': 'idx', 'a': a, 'k': k, 't': 'int' if t == 'list' else 'str'}
        if kind == 'slice':
            t = rng.choice(['list', 'str'])
            a = pick(t)
            if a is None:
                return None
            return {'n': 'slice', 'a': a, 'lo': {'const': 0}, 'hi': operand('int'), 't': t}
        if kind == 'meth':
            t = rng.choice(['str', 'list', 'dict', 'int'])
            a = pick(t)
            if a is None:
                return None
            if t == 'str':
                m, args, rt = rng.choice([('upper', [], 'str'), ('lower', [], 'str'), ('count', [{'const': 'l'}], 'int'),
                                          ('replace', [{'const': 'a'}, operand('str')], 'str'), ('startswith', [{'const': 'a'}], 'bool')])
            elif t == 'list':
                m, args, rt = rng.choice([('count', [operand('int')], 'int'), ('index', [operand('int')], 'int'), ('copy', [], 'list')])
            elif t == 'dict':
                m, args, rt = rng.choice([('get', [{'const': 'a'}, {'const': 0}], 'int'), ('get', [{'const': 'zz'}, operand('int')], 'int')])
            else:
                m, args, rt = rng.choice([('bit_length', [], 'int'), ('conjugate', [], 'int')])
            return {'n': 'meth', 'a': a, 'm': m, 'args': args, 't': rt}
        if kind == 'attr':
            a = pick('int')
            if a is None:
                return None
            return {'n': 'attr', 'a': a, 'm': rng.choice(['real', 'imag', 'numerator']), 't': 'int'}
        if kind in ('matmul', 'pow3'):
            a = pick('int')
            if a is None:
                return None
            if kind == 'matmul':
                return {'n': 'matmul', 'a': a, 'k': rng.choice([2, 3]), 'refl': rng.random() < 0.5, 't': 'int'}
            return {'n': 'pow3', 'a': a, 'e': rng.choice([2, 3]), 'm': rng.choice([5, 7]), 't': 'int'}
        if kind == 'bindk':
            a, k_ = pick('int'), operand('int')
            if a is None:
                return None
            return {'n': 'bindk', 'a': a, 'k': k_, 't': 'int'}
        if kind == 'pipe':
            t = rng.choice(['int', 'list', 'dict'])
            a = pick(t)
            if a is None:
                return None
            if t == 'int':
                f, args, rt = rng.choice([('inc', [], 'int'), ('dbl', [], 'int'), ('tostr', [], 'str'), ('addk', [operand('int')], 'int'),
                                          ('clamp', [{'const': 0}, operand('int')], 'int'), ('scale', [], 'int')])
            elif t == 'list':
                f, args, rt = rng.choice([('sum', [], 'int'), ('rev', [], 'list'), ('first', [], 'int')])
            else:
                f, args, rt = ('keys', [], 'list')
            return {'n': 'pipe', 'f': f, 'a': a, 'args': args, 't': rt}
        if kind == 'where':
            c = pick('bool') or pick('int')
            if c is None:
                return None
            t = rng.choice(['int', 'str'])
            x, y = operand(t), operand(t)
            if no_nested_where:
                for o in (x, y):
                    if 'node' in o and nodes[o['node']]['n'] == 'where':
                        return None
                if nodes[c['node']]['n'] == 'where':
                    return None
            if t == 'int' and rng.random() < 0.25:
                return {'n': 'where', 'c': c, 'x': x, 'y': y, 't': 'list', 'boxed': True}
            return {'n': 'where', 'c': c, 'x': x, 'y': y, 't': t}
        if kind == 'help':
            h = rng.choice(['and_', 'or_', 'not_', 'bool', 'len', 'in_', 'is_', 'is_not', 'map'])
            if h in ('and_', 'or_'):
                a = pick('int')
                if a is None:
                    return None
                b = {'const': rng.choice([0, 4])} if rng.random() < 0.5 else None
                if b is None:
                    cands = [i for i, inp in enumerate(inputs) if inp['t'] == 'int']
                    b = {'node': rng.choice(cands)} if cands else {'const': 4}
                return {'n': 'help', 'h': h, 'a': a, 'b': b, 't': 'int'}
            if h in ('not_', 'bool'):
                a = pick(rng.choice(['int', 'list', 'str', 'bool'])) or pick('int')
                return None if a is None else {'n': 'help', 'h': h, 'a': a, 't': 'bool'}
            if h == 'len':
                a = pick(rng.choice(['list', 'str', 'dict']))
                return None if a is None else {'n': 'help', 'h': h, 'a': a, 't': 'int'}
            if h == 'in_':
                a = pick('int')
                b = operand('list')
                return None if a is None else {'n': 'help', 'h': h, 'a': a, 'b': b, 't': 'bool'}
            if h in ('is_', 'is_not'):
                a = pick(rng.choice(['int', 'list']))
                return None if a is None else {'n': 'help', 'h': h, 'a': a, 'b': {'const': None}, 't': 'bool'}
            a = pick('list')
            return None if a is None else {'n': 'help', 'h': 'map', 'a': a, 'f': rng.choice(['inc', 'dbl', 'tostr']), 't': 'list'}
        if kind == 'strbin':
            a = pick('str')
            if a is None:
                return None
            if rng.random() < 0.5:
                b = operand('str')
                if rng.random() < 0.4:
                    a, b = {'const': 'pre-'}, a
                return {'n': 'bin', 'op': 'add', 'a': a, 'b': b, 't': 'str'}
            b = {'const': rng.choice([0, 2])}
            if rng.random() < 0.4:
                a, b = b, a
            return {'n': 'bin', 'op': 'mul', 'a': a, 'b': b, 't': 'str'}
        if kind == 'listbin':
            a = pick('list')
            if a is None:
                return None
            b = operand('list')
            if rng.random() < 0.4:
                a, b = {'const': [0]}, a
            return {'n': 'bin', 'op': 'add', 'a': a, 'b': b, 't': 'list'}
        return None

    def skeleton(self, case):
        ns = case['cfg']['nodes']
        kinds = sorted({(d['n'] + ':' + str(d.get('op') or d.get('h') or d.get('m') or d.get('f') or '')) for d in ns if d['n'] != 'in'})
        return kinds + [op['op'] for op in case['ops']]

    def simplify(self, case):
        cfg = case['cfg']
        nodes = cfg['nodes']
        n_in = len(cfg['inputs'])
        used = set()
        for op in case['ops']:
            if 'n' in op:
                used.add(op['n'] % len(nodes))
        # drop the last node if nothing refers to it
        for j in range(len(nodes) - 1, n_in - 1, -1):
            refd = any(j in self.children(d) for d in nodes[j + 1:])
            if not refd:
                new_nodes = nodes[:j] + [self.shift(d, j) for d in nodes[j + 1:]]
                ops = []
                for op in case['ops']:
                    if 'n' in op:
                        n = op['n'] % len(nodes)
                        if n == j:
                            continue
                        ops.append({**op, 'n': n - 1 if n > j else n})
                    else:
                        ops.append(op)
                if len(new_nodes) > n_in:
                    c2 = {**cfg, 'nodes': new_nodes}
                    if 'lazy_from' in cfg and j < cfg['lazy_from']:
                        c2['lazy_from'] = cfg['lazy_from'] - 1
                    yield {**case, 'cfg': c2, 'ops': ops}
        for i, inp in enumerate(cfg['inputs']):
            if inp['k'] != 'rx':
                yield {**case, 'cfg': {**cfg, 'inputs': cfg['inputs'][:i] + [{**inp, 'k': 'rx'}] + cfg['inputs'][i + 1:]}}

    @staticmethod
    def shift(d, j):
        def fix(x):
            if isinstance(x, dict) and 'node' in x:
                return {'node': x['node'] - 1 if x['node'] > j else x['node']}
            if isinstance(x, list):
                return [fix(y) for y in x]
            return x
        return {k: fix(v) for k, v in d.items()}

    # ------------------------------------------------------------------------------------------ execution
    def run(self, case):
        import param
        out = Outcome()
        cfg = case['cfg']
        nodes = cfg['nodes']
        inputs = cfg['inputs']
        vals = [inp['v'] for inp in inputs]

        def viol(clause, step, detail):
            if not out.violations:
                out.violations.append((clause, step, detail))

        # --- inputs
        holder_ns = {}
        for i, inp in enumerate(inputs):
            if inp['k'] in ('param', 'bind'):
                holder_ns[f"p{i}"] = param.Parameter(default=inp['v'])
        H = type('RxIn', (param.Parameterized,), holder_ns)
        h = H()
        raw = []        # what is handed over when the input is used as an argument
        roots = []      # rx object of each input
        for i, inp in enumerate(inputs):
            if inp['k'] == 'rx':
                r = param.rx(inp['v'])
                raw.append(r)
                roots.append(r)
            elif inp['k'] == 'param':
                p = getattr(h.param, f"p{i}")
                raw.append(p)
                roots.append(p.rx())
            else:
                f = param.bind(lambda v: v, getattr(h.param, f"p{i}"))
                raw.append(f)
                roots.append(param.rx(f))

        equal_updates = []      # inputs that were assigned a value comparing equal to the previous one but of another type

        def set_input(i, v):
            if loosely_equal(vals[i], v) and not eq_val(vals[i], v):
                equal_updates.append(i)
                out.stats['probe.update_with_equal_value_of_another_type'] += 1
            vals[i] = v
            if inputs[i]['k'] == 'rx':
                roots[i].rx.value = v
            else:
                setattr(h, f"p{i}", v)

        # --- build the expression DAG on the real side
        built = []

        def B(a):
            if isinstance(a, dict) and 'node' in a:
                return built[a['node']]
            if isinstance(a, dict) and 'input' in a:
                return raw[a['input']]
            if isinstance(a, dict) and 'const' in a:
                return a['const']
            return a
        lazy_from = cfg.get('lazy_from', len(nodes))

        def build_node(j):
            d = nodes[j]
            n = d['n']
            try:
                if n == 'in':
                    e = roots[d['i']]
                elif n == 'bin':
                    f = BIN_INT.get(d['op']) or CMP[d['op']]
                    e = f(B(d['a']), B(d['b']))
                elif n == 'un':
                    e = UN[d['op']](B(d['a']))
                elif n == 'idx':
                    e = B(d['a'])[B(d['k'])]
                elif n == 'slice':
                    e = B(d['a'])[B(d['lo']):B(d['hi'])]
                elif n == 'meth':
                    e = getattr(B(d['a']), d['m'])(*[B(x) for x in d['args']])
                elif n == 'attr':
                    e = getattr(B(d['a']), d['m'])
                elif n == 'pipe':
                    e = B(d['a']).rx.pipe(FUNCS[d['f']], *[B(x) for x in d['args']])
                elif n == 'matmul':
                    e = (Mat(d['k']) @ B(d['a'])) if d['refl'] else (B(d['a']) @ Mat(d['k']))
                elif n == 'pow3':
                    e = pow(B(d['a']), d['e'], d['m'])
                elif n == 'bindk':
                    # a function bound by keyword to whole expressions, used as the root of a new expression
                    e = param.rx(param.bind(FUNCS['addk'], x=B(d['a']), k=B(d['k'])))
                elif n == 'where':
                    if d.get('boxed'):
                        e = B(d['c']).rx.where([B(d['x']), 0], [B(d['y']), 1])
                    else:
                        e = B(d['c']).rx.where(B(d['x']), B(d['y']))
                    e = param.rx(e)
                elif n == 'help':
                    a = B(d['a'])
                    hname = d['h']
                    if hname in ('and_', 'or_', 'in_', 'is_', 'is_not'):
                        e = getattr(a.rx, hname)(B(d['b']))
                    elif hname == 'map':
                        e = a.rx.map(FUNCS[d['f']])
                    else:
                        e = getattr(a.rx, hname)()
                else:
                    raise ValueError(n)
            except Exception as ex:      # noqa
                desc = {k: v for k, v in d.items() if k not in ('t', 'depth')}
                viol('C09.operators', 0, f"building node {j} {desc} raised {type(ex).__name__}: {str(ex)[:140]}")
                return False
            if not isinstance(e, param.rx):
                viol('C09.operators', 0, f"building node {j} {d} returned {type(e).__name__} instead of a reactive expression")
                return False
            built.append(e)
            return True
        for j in range(min(lazy_from, len(nodes))):
            if not build_node(j):
                return out

        def plain(j):
            try:
                return ('ok', ev(nodes, vals, j, {}))
            except Raised as r:
                return ('exc', r.cls)

        def real(j):
            try:
                return ('ok', built[j].rx.value)
            except Exception as ex:      # noqa
                return ('exc', type(ex).__name__)

        def fallback_nodes():
            fb = set()
            for a_, d_ in enumerate(nodes[:len(built)]):
                if d_['n'] == 'attr' and plain(a_) == ('exc', 'AttributeError') and plain(d_['a']['node'])[0] == 'ok':
                    fb.add(a_)
            return fb

        def depends_on(j, targets):
            stack, seen = [j], set()
            while stack:
                x = stack.pop()
                for c in self.children(nodes[x]):
                    if c in targets:
                        return True
                    if c not in seen:
                        seen.add(c)
                        stack.append(c)
            return False

        def check_read(step, j, label):
            exp, got = plain(j), real(j)
            desc = {k: v for k, v in nodes[j].items() if k not in ('t', 'depth')}

            def value_viol(j, label, desc, exp, got, step, detail):
                viol('C09.value', step, detail)
            fb = fallback_nodes()
            if fb and (j in fb or depends_on(j, fb)) and exp != got:
                # a pending attribute access (expr.attr not yet used by an operator) falls back to the object itself when the
                # attribute is missing; everything that consumes it as an argument sees the object instead of AttributeError
                a0 = sorted(fb)[0]
                d_ = (f"{label} node {j} {desc}: attribute {nodes[a0]['m']!r} of node {a0} is missing on the current value; plain Python raises "
                      f"AttributeError, the attribute expression returns the object itself (reactive {got}, plain {exp})")
                from ..kernel import tolerated
                if 'C09.value_missing_attribute_fallback' in tolerated('C09'):
                    out.known.append(('C09.value_missing_attribute_fallback', d_))
                    return True
                viol('C09.value_missing_attribute_fallback', step, d_)
                return False
            if exp[0] != got[0]:
                value_viol(j, label, desc, exp, got, step, f"{label} node {j} {desc}: reactive {'raised ' if got[0] == 'exc' else 'returned '}{got[1]!r}, plain Python "
                                        f"{'raises ' if exp[0] == 'exc' else 'gives '}{exp[1]!r}; inputs {vals}")
                return False
            if exp[0] == 'exc':
                if exp[1] != got[1]:
                    # when several operands fail at once, which failure surfaces depends on the evaluation order of the
                    # operands (Python: object, attribute, then arguments); any operand's own failure is acceptable
                    # (transitively: an operand that fails for the same reason may itself surface either failure)
                    others, stack, seen_ = set(), [j], set()
                    while stack:
                        x_ = stack.pop()
                        for c in self.children(nodes[x_]):
                            if c not in seen_ and plain(c)[0] == 'exc':
                                seen_.add(c)
                                others.add(plain(c)[1])
                                stack.append(c)
                    if got[1] in others:
                        out.stats['dontcare.which_of_several_failing_operands_surfaces'] += 1
                        return True
                    value_viol(j, label, desc, exp, got, step, f"{label} node {j} {desc}: reactive raised {got[1]}, plain Python raises {exp[1]}; inputs {vals}")
                    return False
                out.stats['fault.node_raised_as_python'] += 1
                return True
            if not eq_val(exp[1], got[1]):
                value_viol(j, label, desc, exp, got, step, f"{label} node {j} {desc}: reactive value {got[1]!r}, plain Python {exp[1]!r}; inputs {vals}")
                return False
            return True

        # every node agrees right after construction
        for j in range(len(built)):
            if not check_read(0, j, 'initial read of'):
                return out
        watches = {}        # node -> list of received values
        followers = []      # (node, object following it as a reference)

        class Follower(param.Parameterized):
            v = param.Parameter(allow_refs=True)
        read_before = set()
        reread_after_change = False
        raised_seen = False
        states = []
        for step, op in enumerate(case['ops'], 1):
            if out.violations:
                break
            k = op['op']
            out.stats['op.' + k] += 1
            if k == 'set':
                i = op['i'] % len(inputs)
                before = {j: plain(j) for j in watches}
                n_equal_before = len(equal_updates)
                try:
                    set_input(i, op['v'])
                    raised = None
                except Exception as ex:      # noqa
                    raised = type(ex).__name__
                out.log.append(f"{step} set input{i} = {op['v']!r}" + (f" (raised {raised})" if raised else ''))
                after = {j: plain(j) for j in watches}
                # helpers such as where() evaluate parts of the DAG eagerly when an input changes: an update may
                # raise whenever some node currently raises in plain Python (watched or not)
                anybad = any(plain(j)[0] == 'exc' for j in range(len(built)))
                if anybad:
                    raised_seen = True
                if raised and not anybad:
                    viol('C09.watch', step, f"updating input {i} to {op['v']!r} raised {raised} although every watched expression evaluates in plain Python")
                    break
                if not anybad and not (equal_updates and equal_updates[-1] == i and n_equal_before != len(equal_updates)):
                    for j, seen in watches.items():
                        # (a value that compares equal to the previous one - 1, True, 1.0 - is no change the callback must hear of)
                        if after[j][0] == 'ok' and (before[j][0] != 'ok' or not loosely_equal(before[j][1], after[j][1])):
                            if not seen or not loosely_equal(seen[-1], after[j][1]):
                                viol('C09.watch', step, f"after input {i} = {op['v']!r} the value of watched node {j} is {after[j][1]!r} but the callback last "
                                                        f"received {seen[-1] if seen else '<nothing>'!r}")
                                break
            elif k == 'follow':
                # an object follows the expression as a reference: its synchronisation is one more internal consumer that
                # evaluates the expression while the inputs' changes are being announced (nothing else changes)
                j = op['n'] % len(built)
                if len(followers) >= 2 or plain(j)[0] == 'exc':
                    continue
                try:
                    followers.append((j, Follower(v=built[j])))
                except Exception as ex:      # noqa
                    viol('C09.exception', step, f"an object following node {j} as a reference could not be built: {type(ex).__name__}: {str(ex)[:120]}")
                    break
                out.log.append(f"{step} an object follows node {j}")
                out.stats['probe.object_follows_an_expression'] += 1
            elif k == 'setmany':
                # several inputs living on one object updated in one param.update: one batch, watchers called at its end
                items = [(i % len(inputs), v) for i, v in op['items'] if inputs[i % len(inputs)]['k'] != 'rx']
                if len({i for i, _ in items}) < 2:
                    continue
                for i, v in items:
                    if loosely_equal(vals[i], v) and not eq_val(vals[i], v):
                        out.stats['probe.update_with_equal_value_of_another_type'] += 1
                    vals[i] = v
                try:
                    h.param.update(**{f"p{i}": v for i, v in items})
                    raised = None
                except Exception as ex:      # noqa
                    raised = type(ex).__name__
                out.log.append(f"{step} update " + ', '.join(f"input{i} = {v!r}" for i, v in items) + (f" (raised {raised})" if raised else ''))
                out.stats['probe.several_inputs_updated_in_one_batch'] += 1
                if followers:
                    out.stats['probe.batch_update_with_following_object'] += 1
                anybad = any(plain(j)[0] == 'exc' for j in range(len(built)))
                if anybad:
                    raised_seen = True
                if raised and not anybad:
                    viol('C09.watch', step, f"updating inputs {[i for i, _ in items]} in one batch raised {raised} although every expression evaluates in plain Python")
                    break
            elif k == 'mut':
                # an input (a Parameter holding a list) is mutated in place and the change announced with param.trigger, possibly
                # from inside a batch (where the trigger is delivered like an ordinary event for an unchanged object)
                i = op['i'] % len(inputs)
                if inputs[i]['k'] not in ('param', 'bind') or not isinstance(vals[i], list):
                    continue
                vals[i].append(op['v'])
                try:
                    if op.get('batch'):
                        with param.parameterized.batch_call_watchers(h):
                            h.param.trigger(f"p{i}")
                    else:
                        h.param.trigger(f"p{i}")
                except Exception as ex:      # noqa
                    if not any(plain(j)[0] == 'exc' for j in range(len(built))):
                        viol('C09.watch', step, f"announcing the in-place mutation of input {i} raised {type(ex).__name__}")
                        break
                out.log.append(f"{step} mutate input{i} in place -> {vals[i]!r} (trigger{' inside a batch' if op.get('batch') else ''})")
                out.stats['probe.in_place_mutation_announced_by_trigger'] += 1
            elif k == 'build':
                # a new expression derived, mid-history, from expressions that may have been read and then invalidated
                j = len(built)
                if j >= len(nodes) or any(plain(x)[0] == 'exc' for x in range(j + 1)):
                    continue        # expressions are built while everything they are built from evaluates
                if not build_node(j):
                    break
                out.log.append(f"{step} build node {j}")
                out.stats['probe.expression_built_mid_history'] += 1
                if any(c in read_before for c in self.children(nodes[j])):
                    out.stats['probe.built_from_previously_read_expression'] += 1
                check_read(step, j, 'first read of late-built')
            elif k == 'read':
                j = op['n'] % len(built)
                r = plain(j)
                if r[0] == 'exc':
                    raised_seen = True
                out.log.append(f"{step} read node {j} -> {r[0]} {str(r[1])[:80] if not isinstance(r[1], int) or abs(r[1]) < 10**40 else 'huge int'}")
                if j in read_before:
                    reread_after_change = True
                read_before.add(j)
                check_read(step, j, 'read of')
                states.append(f"{nodes[j]['n']}|{r[0]}|{type(r[1]).__name__}")
            elif k == 'watch':
                j = op['n'] % len(built)
                if j in watches or len(watches) >= 3 or plain(j)[0] == 'exc':
                    continue
                seen = []
                try:
                    built[j].rx.watch(lambda v, _s=seen: _s.append(v))
                except Exception as ex:      # noqa
                    viol('C09.watch', step, f"registering a watcher on node {j} raised {type(ex).__name__}: {str(ex)[:120]}")
                    break
                watches[j] = seen
                out.log.append(f"{step} watch node {j}")
        # final sweep: every node, after the whole history
        if not out.violations:
            for j in range(len(built)):
                if not check_read(len(case['ops']) + 1, j, 'final read of'):
                    break
        if reread_after_change and raised_seen:
            out.sig = str(self.skeleton(case))
        out.states = tuple(states)
        for d in nodes[:len(built)]:
            out.stats['node.' + d['n']] += 1
            if d['n'] == 'bin' and 'const' in (d['a'] if isinstance(d['a'], dict) else {}):
                out.stats['probe.reflected_operator'] += 1
        return out


register(RxWorld())
