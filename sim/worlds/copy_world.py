"""CopyWorld — C17: copies and pickles are faithful and independent.

Maps onto "restart from durable state": the deepcopy / pickle taken at a seeded point of a history is the durable
snapshot, the restored object is the restarted node, and both then keep running on diverging histories.
Real: Parameterized.__getstate__/__setstate__, Parameter.__getstate__/__setstate__, _InstancePrivate state, _m_caller /
_sync_caller partials, depends(watch=True) incl. sub-object dependencies, copy.deepcopy, pickle protocols 2-5.
The classes live at module level so pickle can find them; nothing at class level is mutated by a run.
"""
import copy
import pickle

import param

from ..kernel import Outcome, register, weighted


class Sub(param.Parameterized):
    v = param.Parameter(default=0)
    w = param.Parameter(default=0)
    inner = param.Parameter(default=None)       # another Sub: a dependency path of depth 2


class Node(param.Parameterized):
    a = param.Number(default=1, bounds=(0, 1000000))
    b = param.Parameter(default=0)
    l = param.Parameter(default=[0], instantiate=True)
    sub = param.Parameter(default=None)

    def __init__(self, **params):
        super().__init__(**params)
        self.calls = []           # ordinary attribute: every copy must get its own
        self.extra = {'k': [1]}

    @param.depends('a', watch=True)
    def m_a(self):
        self.calls.append(('m_a', self.a))

    @param.depends('a', 'b', watch=True)
    def m_ab(self):
        self.calls.append(('m_ab', self.a, self.b))

    @param.depends('sub.v', watch=True)
    def m_sub(self):
        self.calls.append(('m_sub', None if self.sub is None else self.sub.v))

    @param.depends('sub.v', 'sub.w', watch=True)
    def m_sub2(self):
        self.calls.append(('m_sub2', None if self.sub is None else (self.sub.v, self.sub.w)))

    @param.depends('a:bounds', watch=True)
    def m_bounds(self):
        self.calls.append(('m_bounds', self.param.a.bounds))

    @param.depends('sub.inner.v', watch=True)
    def m_deep(self):
        inner = None if self.sub is None else self.sub.inner
        self.calls.append(('m_deep', None if inner is None else inner.v))

    @param.depends('name:constant', watch=True)
    def m_flag(self):
        # (runs when edit_constant switches the flag of the object's own Parameter; must not run on a half-built copy)
        self.calls.append(('m_flag', self.param.name.constant))

    def record(self, *events):
        self.calls.append(('watch',) + tuple((e.name, e.new) for e in events))

    def record1(self, *events):
        self.calls.append(('watch_p1',))

    def record2(self, *events):
        self.calls.append(('watch_p2',))

    def record3(self, *events):
        self.calls.append(('watch_p3',))


class Plain(param.Parameterized):
    """no sub-object dependencies: the control group"""
    a = param.Number(default=1, bounds=(0, 1000000))
    b = param.Parameter(default=0)
    l = param.Parameter(default=[0], instantiate=True)
    sub = param.Parameter(default=None)

    def __init__(self, **params):
        super().__init__(**params)
        self.calls = []
        self.extra = {'k': [1]}

    @param.depends('a', watch=True)
    def m_a(self):
        self.calls.append(('m_a', self.a))

    @param.depends('a', 'b', watch=True)
    def m_ab(self):
        self.calls.append(('m_ab', self.a, self.b))

    def record(self, *events):
        self.calls.append(('watch',) + tuple((e.name, e.new) for e in events))

    def record1(self, *events):
        self.calls.append(('watch_p1',))

    def record2(self, *events):
        self.calls.append(('watch_p2',))

    def record3(self, *events):
        self.calls.append(('watch_p3',))


class Slotted(Node):
    """keeps an ordinary attribute in a slot of the most derived class"""
    __slots__ = ['slot_attr']

    def __init__(self, **params):
        super().__init__(**params)
        self.slot_attr = ['slot', 0]


def state_of(o):
    sub = o.sub
    return {
        'slot_attr': list(getattr(o, 'slot_attr', ['<missing>'])) if isinstance(o, Slotted) else None,
        'a': o.a, 'b': o.b, 'l': list(o.l), 'sub': None if sub is None else (sub.v, sub.w),
        'inner': None if sub is None or sub.inner is None else sub.inner.v,
        'extra': {k: list(v) for k, v in o.extra.items()}, 'calls': list(o.calls),
        'a_bounds': o.param.a.bounds, 'b_doc': o.param.b.doc,
    }


class CopyWorld:
    name = 'copy'
    props = ('C17',)
    levels = {'C17': 'exploration'}
    chunk = 400
    budget = {'quick': dict(runs=20000, wall=180.0), 'thorough': dict(runs=1000000, wall=900.0)}
    time_unit = 'n/a: logical steps only'
    state_measure = 'distinct (class, sub-object attached?, instance Parameter copies present?, snapshot kind) tuples at the snapshot'
    components = {'real': ['Parameterized.__getstate__/__setstate__ (watcher re-binding)', 'Parameter slot pickling', '_InstancePrivate state',
                           '_m_caller/_sync_caller partials', 'depends(watch=True) with sub-object dependencies', 'copy.deepcopy / pickle (protocols 2-5)'],
                  'stub': ['the "restart": the copy is taken by the driver at a seeded point, after which both sides are driven separately']}
    rules = {'C17': 'case = history A on a fresh object (sets, in-place mutation of an instantiate=True value and of an ordinary attribute, '
                    'per-instance Parameter attribute edits, attach / replace / detach a sub-object, sub-object leaf sets, extra watchers) -> snapshot '
                    '(deepcopy or pickle protocol 2..5, possibly several in one run, possibly a copy of a copy) -> histories B applied to either '
                    'side; checks: the snapshot succeeds, state equal at the snapshot, no shared mutable state, after every B operation the other '
                    'side is unchanged and the dependent methods of the operated side - and only of it - ran exactly as on a fresh object; '
                    'non-trivial = the snapshot was taken with a sub-object attached or an instance Parameter copy present, and both sides were '
                    'operated afterwards; distinct = distinct op-kind sequences.'}
    assumptions = {'C17': ['snapshots are taken between operations, never inside a callback or an open batch (the property quantifies over '
                           'reachable states, not mid-operation states)', 'classes are importable module-level classes']}

    def gen(self, rng, prop, tier, avoid):
        big = tier == 'thorough'
        cfg = {'cls': 'Plain' if ('sub_dependency' in avoid or rng.random() < 0.25) else rng.choice(['Node', 'Node', 'Slotted']), 'avoid': sorted(avoid)}
        n_ops = min(50 if big else 28, 3 + int(rng.expovariate(1 / (13.0 if big else 8.0))))
        ops = []
        snaps = 0
        for j in range(n_ops):
            table = [('set_a', 4), ('set_b', 2), ('same_a', 0.7), ('mut_l', 2), ('set_l', 1), ('mut_extra', 1.5), ('attr', 1.5), ('attach', 2.5),
                     ('detach', 0.7), ('leaf', 4), ('watch', 1.5), ('update', 1.5), ('attach_inner', 2), ('leaf_inner', 2.5), ('mut_slot', 0.7), ('subbatch', 1.2),
                     ('snap', 3.5 if j >= 1 and snaps < 3 else 0)]
            k = weighted(rng, table)
            op = {'op': k, 'side': rng.randint(0, 3)}
            if k == 'snap':
                snaps += 1
                op['kind'] = rng.choice(['deepcopy', 'deepcopy', 'pickle2', 'pickle3', 'pickle4', 'pickle5'])
                op['inbatch'] = rng.random() < 0.2
                op['inedit'] = rng.random() < 0.2
            if k == 'leaf':
                op['p'] = rng.choice(['v', 'w'])
                op['same'] = rng.random() < 0.1
            if k == 'attach':
                op['equal'] = rng.random() < 0.25
            if k == 'subbatch':
                op['differs'] = rng.random() < 0.7
            ops.append(op)
        if not any(o['op'] == 'snap' for o in ops):
            ops.insert(len(ops) // 2 + 1, {'op': 'snap', 'side': 0, 'kind': rng.choice(['deepcopy', 'pickle2', 'pickle5'])})
        return {'cfg': cfg, 'ops': ops}

    def skeleton(self, case):
        return [case['cfg']['cls']] + [op['op'] + (':' + op['kind'] if op['op'] == 'snap' else '') for op in case['ops']]

    def simplify(self, case):
        cfg = case['cfg']
        if cfg['cls'] != 'Plain':
            yield {**case, 'cfg': {**cfg, 'cls': 'Plain'}}
        ops = case['ops']
        for i, op in enumerate(ops):
            if op.get('side'):
                yield {**case, 'ops': ops[:i] + [{**op, 'side': 0}] + ops[i + 1:]}
            if op['op'] == 'snap' and op['kind'] != 'deepcopy':
                yield {**case, 'ops': ops[:i] + [{**op, 'kind': 'deepcopy'}] + ops[i + 1:]}

    def run(self, case):
        out = Outcome()
        cfg = case['cfg']
        K = {'Node': Node, 'Plain': Plain, 'Slotted': Slotted}[cfg['cls']]
        objs = [K()]
        counter = [10]
        snapped_interesting = False
        sides_operated = set()
        states = []

        def fresh():
            counter[0] += 1
            return counter[0]

        def viol(clause, step, detail):
            if not out.violations:
                out.violations.append((clause, step, detail))

        def expected_calls(o, before, what):
            """dependent-method invocations a fresh object would make for this operation (order-insensitive)"""
            exp = []
            after = state_of(o)
            if after['a'] != before['a']:
                exp.append('m_a')
            if after['a'] != before['a'] or after['b'] != before['b']:
                exp.append('m_ab')
            if K is not Plain:
                if after['a_bounds'] != before['a_bounds']:
                    exp.append('m_bounds')
                bs, as_ = before['sub'], after['sub']
                if bs is not None and as_ is not None:
                    if bs[0] != as_[0]:
                        exp.append('m_sub')
                    if bs != as_:
                        exp.append('m_sub2')
                elif bs is not as_:
                    exp.append('?')          # path resolves on one side only: not decided
                bi, ai = before['inner'], after['inner']
                if bi is not None and ai is not None:
                    if bi != ai:
                        exp.append('m_deep')
                elif bi is not ai:
                    exp.append('?')
            return exp

        for step, op in enumerate(case['ops'], 1):
            if out.violations:
                break
            k = op['op']
            si = op['side'] % len(objs)
            o = objs[si]
            out.log.append(f"{step} {k} side={si} {op.get('kind', '')}")
            out.stats['op.' + k] += 1
            if k == 'snap':
                import contextlib
                # (optionally) the snapshot is taken in the middle of a batch on the object: the copy is an idle object all the same
                cm = param.parameterized.batch_call_watchers(o) if op.get('inbatch') else contextlib.nullcontext()
                cm.__enter__()
                if op.get('inbatch'):
                    o.a = fresh()
                    out.stats['probe.snapshot_taken_inside_a_batch'] += 1
                ec = None
                if op.get('inedit'):
                    # ... or inside edit_constant(the object), which has a Parameter object of its own for a constant: the copy
                    # is as locked as the original will be once the block is left
                    o.param['name']
                    ec = param.parameterized.edit_constant(o)
                    ec.__enter__()
                    out.stats['probe.snapshot_taken_inside_edit_constant'] += 1
                before = state_of(o)
                try:
                    if op['kind'] == 'deepcopy':
                        c = copy.deepcopy(o)
                    else:
                        c = pickle.loads(pickle.dumps(o, protocol=int(op['kind'][-1])))
                except Exception as e:      # noqa
                    if ec is not None:
                        ec.__exit__(None, None, None)
                    cm.__exit__(None, None, None)
                    viol('C17.succeeds', step, f"{op['kind']} of a {K.__name__} with state {before} raised {type(e).__name__}: {str(e)[:160]}")
                    break
                out.stats['snapshot.' + op['kind']] += 1
                if o.sub is not None:
                    out.stats['probe.snapshot_with_subobject_attached'] += 1
                    snapped_interesting = True
                if o.param.a.bounds != (0, 1000000) or o.param.b.doc is not None:
                    out.stats['probe.snapshot_with_instance_parameter_edit'] += 1
                    snapped_interesting = True
                got = state_of(c)
                orig_after = state_of(o)
                if ec is not None:
                    ec.__exit__(None, None, None)
                    locked = True
                    try:
                        c.name = 'renamed'
                        locked = False
                    except TypeError:
                        pass
                    if not locked or c.param.name.constant is not o.param.name.constant:
                        viol('C17.equal', step, f"{op['kind']} taken inside edit_constant: once the block is left the original's name is constant again "
                                                f"(flag {o.param.name.constant}), the copy's is not (flag {c.param.name.constant}, "
                                                f"assignment {'accepted' if not locked else 'refused'})")
                        break
                cm.__exit__(None, None, None)
                if got != before:
                    diff = {kk: (before[kk], got[kk]) for kk in before if before[kk] != got[kk]}
                    viol('C17.equal', step, f"{op['kind']}: the copy differs from the original at the snapshot: {diff}")
                    break
                if orig_after != before:
                    viol('C17.independent', step, f"{op['kind']}: taking the snapshot changed the original: {before} -> {orig_after}")
                    break
                if c.l is o.l or c.extra is o.extra or c.extra['k'] is o.extra['k'] or c.calls is o.calls or (o.sub is not None and c.sub is o.sub):
                    viol('C17.independent', step, f"{op['kind']}: the copy shares a mutable object with the original")
                    break
                if type(c) is not type(o) or c.name != o.name:
                    viol('C17.equal', step, f"{op['kind']}: copy has type/name {type(c).__name__}/{c.name}, original {type(o).__name__}/{o.name}")
                    break
                if len(objs) < 4:
                    objs.append(c)
                states.append(f"{K.__name__}|{o.sub is not None}|{op['kind']}")
                continue
            others_before = [state_of(x) for x in objs]
            before = others_before[si]
            n_calls = len(o.calls)
            undecided = False
            custom_exp = None
            try:
                if k == 'set_a':
                    o.a = fresh()
                elif k == 'same_a':
                    o.a = o.a
                elif k == 'set_b':
                    o.b = fresh()
                elif k == 'update':
                    o.param.update(a=fresh(), b=fresh())
                elif k == 'mut_l':
                    o.l.append(fresh())
                elif k == 'set_l':
                    o.l = [fresh()]
                elif k == 'mut_extra':
                    o.extra['k'].append(fresh())
                elif k == 'attr':
                    if fresh() % 2:
                        o.param.a.bounds = (0, 1000000 + fresh())
                    else:
                        o.param.b.doc = f"doc{fresh()}"
                elif k == 'attach':
                    if op.get('equal') and o.sub is not None:
                        o.sub = Sub(v=o.sub.v, w=o.sub.w, inner=None if o.sub.inner is None else Sub(v=o.sub.inner.v))
                    else:
                        o.sub = Sub(v=fresh(), w=fresh(), inner=Sub(v=fresh()) if fresh() % 2 else None)
                elif k == 'detach':
                    o.sub = None
                elif k == 'leaf':
                    if o.sub is None:
                        continue
                    setattr(o.sub, op['p'], getattr(o.sub, op['p']) if op.get('same') else fresh())
                elif k == 'attach_inner':
                    if o.sub is None:
                        continue
                    o.sub.inner = Sub(v=fresh(), w=0)
                elif k == 'leaf_inner':
                    if o.sub is None or o.sub.inner is None:
                        continue
                    o.sub.inner.v = fresh()
                elif k == 'watch':
                    # registered in the reverse of their precedence order: the copy must keep calling them by precedence
                    nw = sum(1 for w in o.param.watchers.get('b', {}).get('value', []) if w.precedence > 0)
                    if nw == 0:
                        o.param.watch(o.record3, ['b'], precedence=3)
                    elif nw == 1:
                        o.param.watch(o.record2, ['b'], precedence=2)
                    elif nw == 2:
                        o.param.watch(o.record1, ['b'], precedence=1)
                    else:
                        o.param.watch(o.record, ['b'])
                elif k == 'subbatch':
                    # a leaf change deferred by a batch on the sub-object, which is then replaced inside that batch; what a fresh
                    # object does is found out by doing the same to a fresh object in the same state
                    if o.sub is None or K is Plain:
                        continue
                    x1, x2 = fresh(), fresh()

                    def both(obj):
                        n0 = len(obj.calls)
                        with param.parameterized.batch_call_watchers(obj.sub):
                            obj.sub.v = x1
                            obj.sub = Sub(v=x2 if op.get('differs', True) else x1, w=obj.sub.w, inner=None)
                        return sorted(c[0] for c in obj.calls[n0:] if not c[0].startswith('watch'))
                    twin = K()
                    twin.sub = Sub(v=o.sub.v, w=o.sub.w, inner=None if o.sub.inner is None else Sub(v=o.sub.inner.v))
                    custom_exp = both(twin)
                    both(o)
                    out.stats['probe.batched_leaf_then_replacement'] += 1
                elif k == 'mut_slot':
                    if isinstance(o, Slotted):
                        o.slot_attr.append(fresh())
            except Exception as e:      # noqa
                viol('C17.deps_on_copy' if si else 'C17.exception', step, f"{k} on side {si} raised {type(e).__name__}: {str(e)[:160]}")
                break
            sides_operated.add(min(si, 1))
            # the other sides must not notice anything
            for xi, x in enumerate(objs):
                if xi != si and state_of(x) != others_before[xi]:
                    b, a = others_before[xi], state_of(x)
                    diff = {kk: (b[kk], a[kk]) for kk in b if b[kk] != a[kk]}
                    clause = 'C17.deps_on_copy' if set(diff) == {'calls'} else 'C17.independent'
                    viol(clause, step, f"{k} on side {si} was visible on side {xi}: {diff}")
                    break
            if out.violations:
                break
            exp = expected_calls(o, before, k) if custom_exp is None else custom_exp
            new_calls = [c[0] for c in o.calls[n_calls:]]
            got = [c for c in new_calls if not c.startswith('watch')]
            # user watchers of b run after the depends methods (precedence -1) and among themselves by precedence
            order = [c for c in new_calls if c in ('m_ab', 'watch_p1', 'watch_p2', 'watch_p3')]
            if order != sorted(order, key=lambda c: {'m_ab': -1, 'watch_p1': 1, 'watch_p2': 2, 'watch_p3': 3}[c]):
                viol('C17.deps_on_copy', step, f"{k} on side {si} ({'copy' if si else 'original'}): callbacks ran in the order {order}, "
                                               f"a fresh object runs them by precedence")
                break
            if '?' not in exp and sorted(got) != sorted(exp):
                viol('C17.deps_on_copy', step, f"{k} on side {si} ({'copy' if si else 'original'}): dependent methods ran {got}, a fresh object runs {sorted(exp)}; "
                                               f"state {before} -> {state_of(o)}")
                break
        if snapped_interesting and len(sides_operated) == 2:
            out.sig = ','.join(self.skeleton(case))
        out.states = tuple(states)
        return out


register(CopyWorld())
