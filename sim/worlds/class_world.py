"""ClassWorld — C12 (no leakage between instances and classes), C13 (.param agrees with attribute access),
C14 (constant / read-only protection).

Real: ParameterizedMetaclass (__setattr__ copy-on-write, get_param_descriptor), Parameter.__get__/__set__, instance
Parameter copies (_instantiate_param_obj), Parameters._setup_params/_instantiate_param/_cls_parameters cache/objects/values/
add_parameter, edit_constant, update.
Model: an ownership map — which class owns a Parameter object for a name (declared or copied on class-level assignment),
what every instance stored itself, which instances have their own Parameter copy — over labelled value objects whose
content the model tracks independently of the real objects.
"""
import inspect
import json

from ..kernel import Outcome, register, weighted

ANY = object()

KINDS = {
    # name: (type, mutable default?, keyword arguments)
    'v': ('Parameter', False, {}),
    'l': ('Parameter', True, {'instantiate': True}),
    's': ('Parameter', True, {}),
    'k': ('Parameter', True, {'constant': True, 'allow_refs': True}),
    'kn': ('Parameter', False, {'constant': True}),
    'g': ('Parameter', False, {'per_instance': False}),
    'n': ('Number', False, {'bounds': (0, 10), 'allow_refs': True}),
    'sel': ('Selector', False, {}),
    'esel': ('Selector', False, {}),
    'r': ('Parameter', False, {'readonly': True}),
}
SEL_OBJECTS = ['o1', 'o2', 'o3']
SHAPES = {'single': [[]], 'chain2': [[], [0]], 'chain3': [[], [0], [1]], 'fork': [[], [0], [0]], 'diamond': [[], [0], [0], [1, 2]]}


def c3(bases, ci):
    def merge(seqs):
        res = []
        seqs = [list(s) for s in seqs if s]
        while seqs:
            for s in seqs:
                h = s[0]
                if not any(h in t[1:] for t in seqs):
                    break
            res.append(h)
            seqs = [[x for x in s if x != h] for s in seqs]
            seqs = [s for s in seqs if s]
        return res
    bs = bases[ci]
    return [ci] + merge([c3(bases, b) for b in bs] + [list(bs)])


class PM:
    """model of one Parameter object"""

    def __init__(self, kind, default, attrs, group=None):
        self.kind, self.default, self.attrs = kind, default, dict(attrs)
        self.group = group if group is not None else object()     # Parameters copied from one another by class-level assignment

    def clone(self, deep_attrs):
        a = {k: (list(v) if isinstance(v, list) else v) for k, v in self.attrs.items()}
        return PM(self.kind, self.default, a, None if deep_attrs else self.group)


class ClassWorld:
    name = 'class'
    props = ('C12', 'C13', 'C14')
    levels = {'C12': 'exploration', 'C13': 'exploration', 'C14': 'exploration'}
    chunk = 250
    budget = {'quick': dict(runs=12000, wall=180.0), 'thorough': dict(runs=600000, wall=900.0)}
    time_unit = 'n/a: logical steps only'
    state_measure = 'distinct (hierarchy shape, classes owning a copied Parameter, instances with own Parameter copies, op kind) tuples'
    components = {'real': ['ParameterizedMetaclass.__setattr__/get_param_descriptor (copy-on-write)', 'Parameter.__get__/__set__, instance_descriptor, '
                           '_instantiate_param_obj', 'Parameters._setup_params/_instantiate_param/_cls_parameters/objects/values/add_parameter/'
                           'serialize_parameters/watch', 'edit_constant, update'],
                  'stub': ['ownership model over labelled value objects (oracle)', 'edit_constant bodies (entered/left by the driver, optionally by exception)']}
    rules = {
        'C12': 'case = hierarchy (single, chains, fork, diamond) declaring/redeclaring parameters with instantiate / per_instance / constant / '
               'mutable defaults / mutable Parameter attributes + history of instance creation, instance and class assignments at every level, '
               'in-place mutation of values and of Parameter attributes on instances and classes, first access of instance Parameters; after every '
               'step values (by identity label and content) and Parameter attributes of every class and instance are compared with the ownership '
               'model; non-trivial = a class-level assignment happened on an inheriting class or after an instance existed, and a mutable object '
               'was mutated in place; distinct = distinct op-kind sequences.',
        'C13': 'same hierarchies; history adds add_parameter at every level and explicit namespace reads (list, [], in, values, repr) that fill the '
               'cache; after every step every Parameter found by a static walk of the MRO must be listed, be the identical object, have default == '
               'class attribute, and .param.values()/repr/serialization must agree with getattr; non-trivial = a namespace of a subclass was read '
               'before an ancestor or the subclass itself was modified; distinct = distinct op-kind sequences.',
        'C14': 'same hierarchies; history of constructor arguments for constants, instance sets of the identical / an equal / a different object, '
               'update, class-level sets on declaring and inheriting classes, read-only sets, nested edit_constant blocks left normally or by '
               'exception, instance Parameter copies created before or after; non-trivial = an edit_constant block was left by exception or a '
               'class-level set preceded a forbidden attempt; distinct = distinct op-kind sequences.'}
    assumptions = {'*': ['whether a class-level Parameter attribute change reaches instances that already own a Parameter copy is not checked',
                         'class-level Parameter attribute changes are only made on the class that owns the Parameter object']}

    # ------------------------------------------------------------------------------------------ generation
    def gen(self, rng, prop, tier, avoid):
        big = tier == 'thorough'
        shape = weighted(rng, [('single', 1), ('chain2', 3), ('chain3', 2), ('fork', 1.5), ('diamond', 2)])
        bases = SHAPES[shape]
        pool = ['v', 'l', 's', 'k', 'g', 'n', 'sel', 'esel', 'kn'] + (['r'] if prop == 'C14' or rng.random() < 0.3 else [])
        if prop == 'C14':
            used = ['k', 'v'] + [p for p in pool + ['kn', 'kn'] if p not in ('k', 'v') and rng.random() < 0.4]
            used = list(dict.fromkeys(used))
        else:
            used = rng.sample(pool, rng.randint(2, 4))
        decl = []
        for ci in range(len(bases)):
            if ci == 0:
                decl.append(list(used))
            else:
                decl.append([p for p in used if rng.random() < 0.2])
        cfg = {'shape': shape, 'used': used, 'decl': decl, 'avoid': sorted(avoid)}
        if prop == 'C14' and rng.random() < 0.3:
            cfg['name_default'] = True          # the root class declares its own default for `name` (it stays a constant)
        n_ops = min(60 if big else 36, 3 + int(rng.expovariate(1 / (16.0 if big else 10.0))))
        nc = len(bases)
        ops = []
        table = {
            'C12': [('new', 4), ('newshared', 1), ('iset', 5), ('itrigger', 1.2), ('iupdctx', 1.2), ('cset', 4), ('imut', 3), ('cmut', 2), ('iattr', 2), ('cattr', 1.5), ('iobj', 1.5), ('cobj', 1),
                    ('touch', 1.5), ('lsp', 0.5), ('newdyn', 1.2)],
            'C13': [('new', 3), ('iset', 3), ('cset', 5), ('addp', 3), ('lsp', 3), ('getp', 2), ('inp', 1), ('vals', 2), ('repr', 1), ('touch', 1),
                    ('ecblock', 1.2),
                    ('watchnew', 1), ('cparam', 2.5), ('poison', 1.5), ('addp_bad', 1.5)],
            'C14': [('new', 3), ('newk', 2), ('kset', 5), ('kupdate', 2), ('cset', 3), ('rset', 2), ('ec_open', 3), ('ec_close', 2.5), ('ec_close_first', 1), ('ec_raise', 1.5),
                    ('touch', 1.5), ('iset', 2), ('nameset', 1), ('kref', 1.5), ('srcset', 1.5), ('newkref', 1), ('srcset_fail', 1), ('srcset_rebind', 1), ('cname', 1), ('ec_flagwatch', 1), ('srcset_invalid', 1), ('ec_flagflip', 1), ('kec', 1.5)],
        }[prop]
        depth = 0
        for _ in range(n_ops):
            k = weighted(rng, table)
            op = {'op': k, 'c': rng.randrange(nc), 'i': rng.randint(0, 5), 'p': rng.choice(used)}
            if k == 'cset' and prop == 'C14':
                op['p'] = rng.choice([q for q in ('k', 'k', 'kn', 'kn', 'r') if q in used])
            if k == 'kset':
                op['how'] = rng.choice(['same', 'equal', 'different'])
            if k == 'rset':
                op['lvl'] = rng.choice(['inst', 'cls'])
            if k == 'ec_open':
                if depth >= 3:
                    op['op'] = 'kset'
                    op['how'] = 'different'
                else:
                    depth += 1
            if k in ('ec_close', 'ec_raise', 'ec_close_first'):
                if depth == 0:
                    op['op'] = 'kset'
                    op['how'] = 'different'
                else:
                    depth -= 1
            if k == 'kref':
                op['same'] = rng.random() < 0.4
            if k == 'ec_flagflip':
                op['lookup'] = rng.random() < 0.5
            if k == 'ec_flagwatch':
                op['when'] = rng.choice(['exit', 'enter'])
            if k == 'kec':
                op['mode'] = rng.choice(['plain', 'touch', 'touch', 'cset', 'cset', 'cset_sub', 'cset_sub', 'watch_enter', 'watch_exit'])
            if k in ('itrigger', 'iupdctx'):
                # a watcher of the triggered parameter raises / the body of the update block raises (seeded change C12-m14)
                op['fail'] = rng.random() < 0.4
            if k == 'new' or k == 'newk':
                op['kw'] = [p for p in used if p not in ('r',) and rng.random() < 0.3]
            if k == 'addp_bad':
                op['via'] = rng.choice(['setattr', 'add_parameter'])
            if k == 'cparam':
                op['via'] = rng.choice(['setattr', 'setattr', 'add_parameter'])
            if prop == 'C13':
                # the invariant is checked on a seeded subset only: checking reads namespaces and so fills caches, and
                # a class whose namespace was never read is exactly the interesting state
                r = rng.random()
                op['chk'] = [] if r < 0.45 else ([rng.randrange(nc)] if r < 0.85 else list(range(nc)))
            ops.append(op)
        return {'cfg': cfg, 'ops': ops}

    def skeleton(self, case):
        return [case['cfg']['shape']] + [op['op'] + (':' + op['p'] if op['op'] in ('cset', 'iset', 'imut', 'cmut') else '') for op in case['ops']]

    def simplify(self, case):
        cfg = case['cfg']
        order = ['single', 'chain2', 'chain3', 'fork', 'diamond']
        for sh in order[:order.index(cfg['shape'])]:
            yield {**case, 'cfg': {**cfg, 'shape': sh, 'decl': cfg['decl'][:len(SHAPES[sh])]}}
        for ci in range(1, len(cfg['decl'])):
            if cfg['decl'][ci]:
                for p in cfg['decl'][ci]:
                    d2 = [list(d) for d in cfg['decl']]
                    d2[ci].remove(p)
                    yield {**case, 'cfg': {**cfg, 'decl': d2}}
        for p in cfg['used']:
            if len(cfg['used']) > 1 and not any(op.get('p') == p for op in case['ops']):
                yield {**case, 'cfg': {**cfg, 'used': [q for q in cfg['used'] if q != p], 'decl': [[q for q in d if q != p] for d in cfg['decl']]}}
        ops = case['ops']
        for i, op in enumerate(ops):
            for key in ('c', 'i'):
                if op.get(key):
                    yield {**case, 'ops': ops[:i] + [{**op, key: 0}] + ops[i + 1:]}
            if op.get('kw'):
                yield {**case, 'ops': ops[:i] + [{**op, 'kw': []}] + ops[i + 1:]}

    def run(self, case):
        # process-global library state must not travel from one simulated run to the next (runs share a worker process)
        import param
        sp = param.parameterized.shared_parameters
        sp._share, sp._shared_cache = False, {}
        r = _Run(case)
        try:
            r.execute()
        except _Stop:
            pass
        return r.out


class _Stop(Exception):
    pass


class _Injected(Exception):
    """raised by a watcher or a context body on the simulator's behalf"""


class _Run:
    def __init__(self, case):
        import param
        self.param = param
        self.case = case
        self.cfg = case['cfg']
        self.prop = case['prop']
        self.out = Outcome()
        self.labels = {}          # id(real object) -> label
        self.keep = []
        self.content = {}         # label -> expected content (list)
        self.counter = 0
        self.step = 0

    # -- helpers ------------------------------------------------------------------------------------
    def viol(self, clause, detail):
        if not self.out.violations:
            self.out.violations.append((clause, self.step, detail))
            self.out.log.append(f"VIOLATION {clause}: {detail}")
        raise _Stop()

    def fresh_int(self):
        self.counter += 1
        return 1000 + self.counter

    def new_list(self):
        self.counter += 1
        obj = [self.counter]
        return self.register(obj)

    def register(self, obj, content=None):
        label = f"L{len(self.labels)}"
        self.labels[id(obj)] = label
        self.keep.append(obj)
        self.content[label] = list(obj) if content is None else list(content)
        return obj

    def label(self, obj):
        return self.labels.get(id(obj))

    def default_for(self, p):
        kind = KINDS[p]
        if kind[1]:
            return self.new_list()
        if p == 'n':
            self.counter += 1
            return self.counter % 10
        if p == 'sel':
            return 'o1'
        if p in ('esel', 'kn'):
            return None
        return self.fresh_int()

    def describe(self, v):
        if isinstance(v, list):
            return f"{self.label(v)}{v}"
        return repr(v)

    # -- world construction --------------------------------------------------------------------------
    def build(self):
        param = self.param
        cfg = self.cfg
        self.bases = SHAPES[cfg['shape']]
        self.classes = []
        self.own = []               # per class: {p: PM}
        self.extra = []             # per class: names added by add_parameter
        for ci, bs in enumerate(self.bases):
            ns, own = {}, {}
            for p in cfg['decl'][ci]:
                kind, mutable, kw = KINDS[p]
                d = self.default_for(p)
                kw = dict(kw)
                if p == 'sel':
                    kw['objects'] = list(SEL_OBJECTS)
                    ns[p] = param.Selector(default=d, **kw)
                    attrs = {'objects': list(SEL_OBJECTS), 'doc': None}
                elif p == 'esel':
                    ns[p] = param.Selector(objects=[], **kw)
                    attrs = {'objects': [], 'doc': None}
                elif p == 'n':
                    ns[p] = param.Number(default=d, **kw)
                    attrs = {'bounds': (0, 10), 'doc': None}
                else:
                    ns[p] = param.Parameter(default=d, **kw)
                    attrs = {'doc': None}
                own[p] = PM(p, d, attrs)
            if ci == 0 and cfg.get('name_default'):
                ns['name'] = param.String(default='custom')
            self.classes.append(type(f"K{ci}", tuple(self.classes[b] for b in bs) or (param.Parameterized,), ns))
            self.own.append(own)
            self.extra.append({})
        self.mro = [c3(self.bases, ci) for ci in range(len(self.bases))]
        self.insts = []             # real
        self.im = []                # model: {'c': ci, 'values': {p: obj}, 'copies': {p: PM}}
        self.ec = []                # open edit_constant contexts: (cm, inst index)
        self.fuzzy = set()          # objects whose overlapping edit_constant blocks were left out of order: undecided while any stays open
        self.ref_src = None         # source object whose Parameter is offered as a reference to constants
        self.veto_installed = False
        self.cache_read = set()     # classes whose namespace was read (probe)
        self.probe = {'inherit_cset': False, 'mut': False, 'stale_risk': False, 'ec_raise': False, 'cset_before_attempt': False}

    def gov(self, ci, p):
        for k in self.mro[ci]:
            if p in self.own[k]:
                return k, self.own[k][p]
        return None, None

    def visible(self, ci):
        names = []
        for k in self.mro[ci]:
            for p in list(self.own[k]):
                if p not in names:
                    names.append(p)
        return names

    def static_param(self, ci, p):
        for k in self.classes[ci].__mro__:
            d = k.__dict__.get(p)
            if isinstance(d, self.param.Parameter):
                return d
        return None

    # -- instance creation ---------------------------------------------------------------------------------
    def set_src(self, new, fail=False):
        """only a constant linked in its constructor follows the source (a rejected reference left no link)"""
        if new is self.ref_src.x:
            return
        equal = (new == self.ref_src.x)         # an equal value is no change: nothing is propagated to the links
        linked = [j for j, m_ in enumerate(self.im) if m_.get('linked_k') and not equal]
        h = None
        if fail and linked:
            # a callback of the linked constant fails while the new value is being propagated to it
            def failing(*events):
                raise RuntimeError('callback failed')
            h = (self.insts[linked[0]], self.insts[linked[0]].param.watch(failing, ['k']))
            self.out.stats['fault.failure_while_a_linked_constant_is_synchronised'] += 1
        try:
            self.ref_src.x = new
        except RuntimeError:
            pass
        finally:
            if h is not None:
                h[0].param.unwatch(h[1])
        for j in linked:
            self.im[j]['values']['k'] = new

    def make_ref_src(self):
        if self.ref_src is None:
            RS = type('RefSrc', (self.param.Parameterized,), {'x': self.param.Parameter(default=None), 'y': self.param.Parameter(default=3)})
            self.ref_src = RS(x=self.new_list())

    def new_instance(self, ci, kwnames, dynamic=False, share=None, kref=False):
        """share: the objects already instantiated for this class inside the current shared_parameters block"""
        if len(self.insts) >= 5:
            return
        kw, given = {}, {}
        for p in kwnames:
            if p == 'esel':
                continue
            if p == 'n' and dynamic and 'n' in self.visible(ci):
                # a callable handed to a Number: this instance produces its value dynamically, nothing else changes
                const = (self.counter % 7) + 1
                self.counter += 1
                kw[p] = (lambda c=const: c)
                given[p] = const
                continue
            if p in self.visible(ci) and p != 'r':
                v = {'n': (self.counter % 7) + 1, 'sel': 'o2'}.get(p)
                if v is None:
                    v = self.new_list() if KINDS.get(p, ('', False))[1] else self.fresh_int()
                kw[p] = v
                given[p] = v
        if kref:
            kw['k'] = self.ref_src.param.x
            given['k'] = self.ref_src.x
            if 'n' in self.visible(ci) and isinstance(self.ref_src.y, int) and 0 <= self.ref_src.y <= 10:
                kw['n'] = self.ref_src.param.y          # a second, validated parameter linked to the same source object
                given['n'] = self.ref_src.y
        # expected constructor effects, from the governing Parameters *before* the call
        vals = {}
        adopt = {}
        for p in self.visible(ci):
            k, pm = self.gov(ci, p)
            kind = KINDS.get(p)
            if kind is None:
                continue
            if kind[2].get('instantiate'):
                adopt[p] = pm.default           # a private deep copy of this object is expected
            elif kind[2].get('constant') or kind[2].get('readonly'):
                vals[p] = pm.default
        try:
            o = self.classes[ci](**kw)
        except Exception as e:      # noqa
            self.viol(f"{self.prop}.exception", f"K{ci}({sorted(kw)}) raised {type(e).__name__}: {str(e)[:160]}")
        for p, src in adopt.items():
            if p in given:
                continue
            real = getattr(o, p)
            if share is not None and p in share:
                # inside one shared_parameters block the instances of a class share what the first one instantiated
                if real is not share[p]:
                    self.viol('C12.instantiate_copy', f"second K{ci} instance of a shared_parameters block: {p} is {self.describe(real)}, expected the "
                                                      f"object {self.describe(share[p])} instantiated for the first one")
                vals[p] = real
                continue
            if share is not None:
                share[p] = real
            if isinstance(src, list):
                if self.label(real) is not None:
                    self.viol('C12.instantiate_copy', f"new K{ci} instance: {p} is the existing object {self.describe(real)}, expected a private copy of "
                                                      f"{self.describe(src)}")
                if real != self.content[self.label(src)]:
                    self.viol('C12.instantiate_copy', f"new K{ci} instance: private copy of {p} is {real}, class default content is {self.content[self.label(src)]}")
                self.register(real)
            vals[p] = real
        vals.update(given)
        self.insts.append(o)
        self.im.append({'c': ci, 'values': vals, 'copies': {}, 'name': o.name})

    def ensure_copy(self, i, p):
        m = self.im[i]
        if p in m['copies'] or KINDS.get(p, ('', False, {}))[2].get('per_instance') is False:
            return
        k, pm = self.gov(m['c'], p)
        m['copies'][p] = pm.clone(deep_attrs=True)

    # -- expectations / checks -------------------------------------------------------------------------------
    def expect_value(self, holder_desc, real, exp, clause):
        if isinstance(exp, list):
            if real is not exp:
                self.viol(clause, f"{holder_desc} is {self.describe(real)}, expected the object {self.describe(exp)}")
            if list(real) != self.content[self.label(exp)]:
                self.viol(clause, f"{holder_desc} ({self.label(exp)}) has content {list(real)}, expected {self.content[self.label(exp)]}")
        elif real != exp or type(real) is not type(exp):
            self.viol(clause, f"{holder_desc} is {real!r}, expected {exp!r}")

    def check_c12(self, where):
        for ci in range(len(self.classes)):
            for p in self.visible(ci):
                if p in self.extra_names():
                    continue
                k, pm = self.gov(ci, p)
                self.expect_value(f"{where}: class attribute K{ci}.{p}", getattr(self.classes[ci], p), pm.default,
                                  'C12.inst_private' if self.last_kind.startswith('i') else 'C12.follow_default')
                sp = self.static_param(ci, p)
                for a, exp in pm.attrs.items():
                    if exp is ANY:
                        continue
                    got = list(sp.objects) if a == 'objects' else getattr(sp, a)
                    if got != exp:
                        self.viol('C12.inst_private' if self.last_kind.startswith('i') else 'C12.class_private',
                                  f"{where}: Parameter attribute K{ci}.{p}.{a} is {got!r}, expected {exp!r}")
        for i, (o, m) in enumerate(zip(self.insts, self.im)):
            for p in self.visible(m['c']):
                if p in self.extra_names():
                    continue
                k, pm = self.gov(m['c'], p)
                if p in m['values']:
                    clause = 'C12.constant_kept' if p == 'k' else ('C12.instantiate_copy' if p == 'l' else 'C12.inst_private')
                    self.expect_value(f"{where}: I{i}.{p} (own value)", getattr(o, p), m['values'][p], clause)
                else:
                    clause = 'C12.shared_identity' if isinstance(pm.default, list) else 'C12.follow_default'
                    self.expect_value(f"{where}: I{i}.{p} (following K{k} default)", getattr(o, p), pm.default, clause)
                if p in m['copies']:
                    ip = o.param[p]
                    for a, exp in m['copies'][p].attrs.items():
                        if exp is ANY:
                            continue
                        got = list(ip.objects) if a == 'objects' else getattr(ip, a)
                        if got != exp:
                            self.viol('C12.inst_private', f"{where}: instance Parameter attribute I{i}.{p}.{a} is {got!r}, expected {exp!r}")

    def extra_names(self):
        return {n for e in self.extra for n in e}

    def check_c13(self, where, only=None):
        P = self.param.Parameter
        for ci, K in enumerate(self.classes):
            if only is not None and ci not in only:
                continue
            static = {}
            for k in K.__mro__:
                for n, d in k.__dict__.items():
                    if isinstance(d, P) and n not in static:
                        static[n] = d
            listed = list(K.param)
            for n, d in static.items():
                if n not in listed or n not in K.param:
                    self.viol('C13.listed', f"{where}: Parameter {n!r} is an attribute of K{ci} but is not listed in K{ci}.param ({sorted(listed)})")
                if K.param[n] is not d:
                    self.viol('C13.same_object', f"{where}: K{ci}.param[{n!r}] is not the Parameter object that governs K{ci}.{n} "
                                                 f"(namespace default {K.param[n].default!r}, attribute {getattr(K, n)!r})")
                if n != 'name' and not self.same(K.param[n].default, getattr(K, n)):
                    self.viol('C13.default', f"{where}: K{ci}.param[{n!r}].default is {K.param[n].default!r} but K{ci}.{n} is {getattr(K, n)!r}")
            vals = K.param.values()
            for n in static:
                if n not in vals or not self.same(vals[n], getattr(K, n)):
                    self.viol('C13.values', f"{where}: K{ci}.param.values()[{n!r}] = {vals.get(n, '<missing>')!r}, getattr gives {getattr(K, n)!r}")
        for i, o in enumerate(self.insts):
            K = type(o)
            if only is not None and self.im[i]['c'] not in only:
                continue
            static = set()
            for k in K.__mro__:
                for n, d in k.__dict__.items():
                    if isinstance(d, P):
                        static.add(n)
            vals = o.param.values()
            rep = repr(o)
            try:
                ser = json.loads(o.param.serialize_parameters(subset=[n for n in static if n not in ('sel',)]))
            except Exception as e:      # noqa
                self.viol('C13.values', f"{where}: serialize_parameters of I{i} raised {type(e).__name__}: {str(e)[:120]}")
            for n in static:
                if n not in o.param:
                    self.viol('C13.listed', f"{where}: Parameter {n!r} is an attribute of I{i} ({K.__name__}) but not in its .param namespace")
                if n not in vals or not self.same(vals[n], getattr(o, n)):
                    self.viol('C13.values', f"{where}: I{i}.param.values()[{n!r}] = {vals.get(n, '<missing>')!r}, getattr gives {getattr(o, n)!r}")
                if f"{n}={getattr(o, n)!r}" not in rep:
                    self.viol('C13.values', f"{where}: repr(I{i}) = {rep} does not show {n}={getattr(o, n)!r}")
                if n in ser and ser[n] != getattr(o, n):
                    self.viol('C13.values', f"{where}: serialized {n} = {ser[n]!r}, getattr gives {getattr(o, n)!r}")

    @staticmethod
    def same(a, b):
        return a is b or (a == b and type(a) is type(b))

    def check_c14(self, where):
        depth_by_inst = {}
        for _, i in self.ec:
            depth_by_inst[i] = depth_by_inst.get(i, 0) + 1
        for i, (o, m) in enumerate(zip(self.insts, self.im)):
            for q in ('k', 'kn'):
                if q in self.visible(m['c']):
                    real = getattr(o, q)
                    exp = m['values'].get(q)
                    if real is not exp:
                        self.viol('C14.identity', f"{where}: constant I{i}.{q} holds {self.describe(real)}, expected the object {self.describe(exp)} "
                                                  f"it had at construction")
            for p in ('k', 'r'):
                if p in self.visible(m['c']):
                    sp = self.static_param(m['c'], p)
                    if sp.constant is not True:
                        self.viol('C14.flags_restored', f"{where}: class Parameter {p} governing I{i} has constant={sp.constant!r}")
                    if not depth_by_inst.get(i) and p in m['copies'] and o.param[p].constant is not True:
                        self.viol('C14.flags_restored', f"{where}: instance Parameter I{i}.{p} has constant={o.param[p].constant!r} outside edit_constant")
            if i not in self.fuzzy and o.name != m['name']:
                self.viol('C14.name_constant', f"{where}: I{i}.name is {o.name!r}, it was {m['name']!r} when last assigned (construction or edit_constant)")
            if type(o).param['name'].constant is not True:
                self.viol('C14.flags_restored', f"{where}: the name Parameter of I{i}'s class has constant={type(o).param['name'].constant!r}")
            if not depth_by_inst.get(i) and o.param['name'].constant is not True:
                self.viol('C14.flags_restored', f"{where}: the name Parameter of I{i} has constant={o.param['name'].constant!r} outside edit_constant")
            if 'r' in self.visible(m['c']):
                k, pm = self.gov(m['c'], 'r')
                if o.r != pm.default:
                    self.viol('C14.identity', f"{where}: read-only I{i}.r is {o.r!r}, expected {pm.default!r}")
        for ci in range(len(self.classes)):
            for p in ('k', 'r', 'kn'):
                if p in self.visible(ci):
                    k, pm = self.gov(ci, p)
                    real = getattr(self.classes[ci], p)
                    if isinstance(pm.default, list):
                        if real is not pm.default:
                            self.viol('C14.identity', f"{where}: class attribute K{ci}.{p} is {self.describe(real)}, expected {self.describe(pm.default)}")
                    elif real != pm.default:
                        self.viol('C14.identity', f"{where}: class attribute K{ci}.{p} is {real!r}, expected {pm.default!r}")

    # -- operations --------------------------------------------------------------------------------------------
    def do(self, op):
        k = op['op']
        nc = len(self.classes)
        ci = op['c'] % nc
        p = op['p']
        has_inst = bool(self.insts)
        i = op['i'] % len(self.insts) if has_inst else None
        param = self.param
        if k in ('new', 'newk'):
            self.new_instance(ci, op.get('kw', []) + (['k'] if k == 'newk' else []))
        elif k == 'newdyn':
            self.new_instance(ci, ['n'], dynamic=True)
        elif k == 'newshared':
            # two instances built inside one shared_parameters block; the block's cache ends with the block
            share = {}
            with param.shared_parameters():
                self.new_instance(ci, [], share=share)
                self.new_instance(ci, [], share=share)
            self.out.stats['probe.shared_parameters_block'] += 1
        elif k == 'cset':
            if p not in self.visible(ci) or p == 'esel':
                return
            kk, pm = self.gov(ci, p)
            if p == 'r':
                try:
                    setattr(self.classes[ci], 'r', self.fresh_int())
                except TypeError:
                    self.out.stats['reject.readonly_class'] += 1
                    return
                self.viol('C14.raises', f"class-level assignment to read-only K{ci}.r was accepted")
            v = {'n': (self.counter % 9) + 1, 'sel': ['o1', 'o2', 'o3'][self.counter % 3]}.get(p)
            self.counter += 1
            if v is None:
                v = self.new_list() if (KINDS[p][1] or p == 'kn') else self.fresh_int()
            setattr(self.classes[ci], p, v)
            if kk != ci:
                # copy-on-write: K{ci} now owns a copy of the inherited Parameter, with its own mutable attributes
                self.own[ci][p] = pm.clone(deep_attrs=True)
                pm = self.own[ci][p]
                self.probe['inherit_cset'] = True
                if ci in self.cache_read or any(c in self.cache_read for c in range(nc) if ci in self.mro[c]):
                    self.probe['stale_risk'] = True
            if self.insts:
                self.probe['inherit_cset'] = True
            if p in ('k', 'r'):
                self.probe['cset_before_attempt'] = True
            pm.default = v
        elif k == 'iset' and has_inst:
            m = self.im[i]
            if p not in self.visible(m['c']) or p in ('k', 'r', 'esel', 'kn'):
                return
            v = {'n': (self.counter % 9) + 1, 'sel': ['o1', 'o2', 'o3'][self.counter % 3]}.get(p)
            self.counter += 1
            if v is None:
                v = self.new_list() if KINDS[p][1] else self.fresh_int()
            setattr(self.insts[i], p, v)
            self.ensure_copy(i, p)
            m['values'][p] = v
            if p == 'n':
                m['linked_n'] = False
        elif k in ('itrigger', 'iupdctx') and has_inst:
            # neither param.trigger nor a completed `with obj.param.update(...)` block is an assignment: an instance that follows
            # the class default goes on following it, one that holds its own value keeps it
            m = self.im[i]
            if p not in self.visible(m['c']) or p in ('k', 'r', 'esel', 'kn'):
                return
            o = self.insts[i]
            if k == 'itrigger' and op.get('fail'):
                def failing(*events):
                    raise _Injected('watcher of a triggered parameter')
                h = o.param.watch(failing, [p], onlychanged=False)
                try:
                    o.param.trigger(p)
                    self.viol('C12.harness', 'the failing watcher of a triggered parameter was not called')
                except _Injected:
                    pass
                finally:
                    o.param.unwatch(h)
                for q in self.visible(m['c']):
                    self.ensure_copy(i, q)
                self.out.stats['fault.watcher_raises_in_trigger_on_instance'] += 1
            elif k == 'itrigger':
                o.param.trigger(p)
                for q in self.visible(m['c']):       # (looking for Event parameters it visits every instance Parameter)
                    self.ensure_copy(i, q)
            else:
                v = {'n': (self.counter % 9) + 1, 'sel': ['o1', 'o2', 'o3'][self.counter % 3]}.get(p)
                self.counter += 1
                if v is None:
                    v = self.new_list() if KINDS[p][1] else self.fresh_int()
                if op.get('fail'):
                    try:
                        with o.param.update(**{p: v}):
                            raise _Injected('body of an update block')
                    except _Injected:
                        pass
                    self.out.stats['fault.update_block_body_raises_on_instance'] += 1
                else:
                    with o.param.update(**{p: v}):
                        pass
            self.ensure_copy(i, p)
            self.out.stats['probe.trigger_or_update_block_on_instance'] += 1
        elif k == 'imut' and has_inst:
            m = self.im[i]
            cand = [q for q in self.visible(m['c']) if isinstance(getattr(self.insts[i], q), list)]
            if not cand:
                return
            q = p if p in cand else cand[self.counter % len(cand)]
            exp = m['values'][q] if q in m['values'] else self.gov(m['c'], q)[1].default
            real = getattr(self.insts[i], q)
            self.counter += 1
            real.append(self.counter)
            if real is exp:
                self.content[self.label(exp)].append(self.counter)
            self.probe['mut'] = True
        elif k == 'cmut':
            cand = [q for q in self.visible(ci) if isinstance(self.gov(ci, q)[1].default, list)]
            if not cand:
                return
            q = p if p in cand else cand[self.counter % len(cand)]
            exp = self.gov(ci, q)[1].default
            real = getattr(self.classes[ci], q)
            self.counter += 1
            real.append(self.counter)
            if real is exp:
                self.content[self.label(exp)].append(self.counter)
            self.probe['mut'] = True
        elif k == 'touch' and has_inst:
            m = self.im[i]
            if p in self.visible(m['c']):
                self.insts[i].param[p]
                self.ensure_copy(i, p)
        elif k == 'iattr' and has_inst:
            m = self.im[i]
            q = 'n' if 'n' in self.visible(m['c']) and self.counter % 2 else p
            if q not in self.visible(m['c']) or KINDS.get(q, ('', 0, {}))[2].get('per_instance') is False:
                return
            self.counter += 1
            self.ensure_copy(i, q)
            if q == 'n' and self.counter % 2:
                nb = (0, 10 + self.counter)
                self.insts[i].param[q].bounds = nb
                m['copies'][q].attrs['bounds'] = nb
            else:
                self.insts[i].param[q].doc = f"doc{self.counter}"
                m['copies'][q].attrs['doc'] = f"doc{self.counter}"
        elif k == 'cattr':
            q = 'n' if 'n' in self.visible(ci) and self.counter % 2 else p
            if q not in self.visible(ci):
                return
            kk, pm = self.gov(ci, q)
            self.counter += 1
            sp = self.static_param(kk, q)
            if q == 'n' and self.counter % 2:
                nb = (0, 10 + self.counter)
                sp.bounds = nb
                pm.attrs['bounds'] = nb
                a = 'bounds'
            else:
                sp.doc = f"doc{self.counter}"
                pm.attrs['doc'] = f"doc{self.counter}"
                a = 'doc'
            for m in self.im:
                if q in m['copies'] and kk == self.gov(m['c'], q)[0]:
                    m['copies'][q].attrs[a] = ANY
        elif k == 'iobj' and has_inst:
            m = self.im[i]
            cand = [q for q in ('sel', 'esel') if q in self.visible(m['c'])]
            if not cand:
                return
            self.counter += 1
            q = cand[self.counter % len(cand)]
            self.ensure_copy(i, q)
            self.insts[i].param[q].objects.append(f"x{self.counter}")
            if m['copies'][q].attrs['objects'] is not ANY:
                m['copies'][q].attrs['objects'].append(f"x{self.counter}")
            self.probe['mut'] = True
        elif k == 'cobj':
            if 'sel' not in self.visible(ci):
                return
            kk, pm = self.gov(ci, 'sel')
            self.counter += 1
            self.static_param(kk, 'sel').objects.append(f"y{self.counter}")
            # whether a copy made by class-level assignment shares its mutable attributes with the Parameter it was
            # copied from is not stated: the other side of such a pair becomes don't-care
            for own in self.own:
                pm2 = own.get('sel')
                if pm2 is not None and pm2 is not pm and pm2.group is pm.group:
                    pm2.attrs['objects'] = ANY
            if pm.attrs['objects'] is not ANY:
                pm.attrs['objects'] = list(pm.attrs['objects']) + [f"y{self.counter}"]
            for m in self.im:
                if 'sel' in m['copies'] and self.gov(m['c'], 'sel')[0] == kk:
                    m['copies']['sel'].attrs['objects'] = ANY
            self.probe['mut'] = True
        elif k == 'lsp':
            list(self.classes[ci].param)
            self.cache_read.add(ci)
        elif k == 'getp':
            if p in self.visible(ci):
                self.classes[ci].param[p]
                self.cache_read.add(ci)
        elif k == 'inp':
            p in self.classes[ci].param
            self.cache_read.add(ci)
        elif k == 'vals':
            (self.insts[i] if has_inst and self.counter % 2 else self.classes[ci]).param.values()
            self.cache_read.add(ci)
        elif k == 'repr' and has_inst:
            repr(self.insts[i])
        elif k == 'addp':
            if sum(len(e) for e in self.extra) >= 4:
                return
            self.counter += 1
            name = f"x{self.counter}"
            d = self.fresh_int()
            if any(c in self.cache_read for c in range(nc) if ci in self.mro[c] and c != ci):
                self.probe['stale_risk'] = True
            self.classes[ci].param.add_parameter(name, param.Parameter(default=d))
            self.extra[ci][name] = d
        elif k == 'addp_bad':
            # a Parameter that cannot be installed: a String left without a default inherits the (non-string) default of the
            # Parameter it would override, which it rejects; the class must be left exactly as it was
            cand = [q for q in ('v', 'n', 'kn') if q in self.visible(ci) and q not in self.own[ci] and
                    not isinstance(self.gov(ci, q)[1].default, str) and self.gov(ci, q)[1].default is not None]
            if not cand:
                return
            q = cand[self.counter % len(cand)]
            try:
                if op.get('via') == 'setattr':
                    setattr(self.classes[ci], q, param.String())
                else:
                    self.classes[ci].param.add_parameter(q, param.String())
            except Exception:       # noqa
                self.out.stats['reject.parameter_that_cannot_be_installed'] += 1
                return
            self.viol('C13.exception', f"a String Parameter overriding K{ci}.{q} (inherited default {self.gov(ci, q)[1].default!r}) was accepted")
        elif k == 'poison':
            # a class-level watcher raises (after looking at the namespace) when it hears of the value: the assignment itself
            # stands, and the namespaces must describe the Parameter that now governs the class
            if 'v' not in self.visible(ci):
                return
            if not self.veto_installed:
                self.veto_installed = True

                def veto(event):
                    if event.new == 'POISON':
                        list(event.cls.param)
                        event.cls.param['v']
                        raise RuntimeError('vetoed by a class-level watcher')
                root = self.gov(0, 'v')[0] if 'v' in self.visible(0) else None
                if root is None:
                    return
                self.classes[root].param.watch(veto, ['v'])
            kk, pm = self.gov(ci, 'v')
            if isinstance(pm.default, str):
                return
            try:
                setattr(self.classes[ci], 'v', 'POISON')
            except RuntimeError:
                self.out.stats['reject.class_level_veto'] += 1
                if any(c in self.cache_read for c in range(nc)):
                    self.probe['stale_risk'] = True
                # the value was stored before the watcher raised: the assignment stands (on the class owning the Parameter and on
                # an inheriting class, which now owns a copy), exactly as when nobody vetoes
            if kk != ci:
                self.own[ci]['v'] = pm.clone(deep_attrs=True)
                pm = self.own[ci]['v']
            pm.default = 'POISON'
        elif k == 'cparam':
            # a new Parameter object assigned over an existing Parameter name (declared here or inherited)
            q = 'v' if 'v' in self.visible(ci) else None
            if q is None:
                return
            d = self.fresh_int()
            if any(c in self.cache_read for c in range(nc) if ci in self.mro[c]):
                self.probe['stale_risk'] = True
            if op.get('via') == 'add_parameter':
                self.classes[ci].param.add_parameter(q, param.Parameter(default=d))
            else:
                setattr(self.classes[ci], q, param.Parameter(default=d))
            self.own[ci][q] = PM(q, d, {'doc': ANY})
        elif k == 'watchnew':
            names = [(c, n) for c, e in enumerate(self.extra) for n in e]
            if not names:
                return
            c, n = names[self.counter % len(names)]
            subs = [x for x in range(nc) if c in self.mro[x]]
            target = self.classes[subs[self.counter % len(subs)]]
            got = []
            try:
                o = target()
                o.param.watch(lambda e: got.append(e.new), n)
                setattr(o, n, self.fresh_int())
            except Exception as e:      # noqa
                self.viol('C13.watchable', f"watching added parameter {n!r} on an instance of {target.__name__} raised {type(e).__name__}: {str(e)[:120]}")
            if len(got) != 1:
                self.viol('C13.watchable', f"watcher of added parameter {n!r} on {target.__name__} was called {len(got)} times")
        # ---- C14 operations
        elif k == 'kset' and has_inst:
            m = self.im[i]
            if 'k' not in self.visible(m['c']):
                return
            o = self.insts[i]
            cur = m['values']['k']
            how = op.get('how', 'different')
            inside = any(ii == i for _, ii in self.ec)
            if how == 'same':
                o.k = cur                               # the identical object is always allowed
                m['linked_k'] = False                   # (as a plain value it ends a link made by the constructor)
                return
            if i in self.fuzzy:
                return
            new = self.register(list(cur)) if how == 'equal' and isinstance(cur, list) else self.new_list()
            try:
                o.k = new
            except TypeError:
                if inside:
                    self.viol('C14.raises', f"I{i}.k could not be set inside edit_constant")
                self.out.stats['reject.constant'] += 1
                return
            if not inside:
                self.viol('C14.raises', f"constant I{i}.k was rebound to {self.describe(new)} ({how}) outside edit_constant")
            self.ensure_copy(i, 'k')
            m['values']['k'] = new
            m['linked_k'] = False       # a plain value ends the link
        elif k == 'kref' and has_inst:
            # a reference handed to a constant parameter after construction: rejected, and it must not become a link
            m = self.im[i]
            if 'k' not in self.visible(m['c']) or any(ii == i for _, ii in self.ec) or i in self.fuzzy:
                return
            self.make_ref_src()
            if op.get('same'):
                # the reference currently resolves to the very object the constant holds: still a reference, still rejected
                self.set_src(m['values']['k'])
            try:
                self.insts[i].k = self.ref_src.param.x
            except TypeError:
                self.out.stats['reject.constant_reference'] += 1
                return
            self.viol('C14.raises', f"a reference was accepted by constant I{i}.k outside edit_constant")
        elif k in ('srcset', 'srcset_fail'):
            if self.ref_src is None:
                return
            self.set_src(self.new_list(), fail=(k == 'srcset_fail'))
        elif k == 'cname':
            # class-level assignment of `name`: allowed on a class, existing instances keep theirs
            if self.cfg.get('name_default'):
                self.counter += 1
                setattr(self.classes[ci], 'name', f"cls{self.counter}")
        elif k == 'srcset_invalid':
            # one update of the source changes what the constant follows AND hands the other linked parameter a value it
            # rejects: the synchronisation fails half-way, the constant is locked again all the same
            linked = [j for j, m_ in enumerate(self.im) if m_.get('linked_k') and m_.get('linked_n')]
            if self.ref_src is None or not linked or any(ii == linked[0] for _, ii in self.ec):
                return
            new = self.new_list()
            try:
                self.ref_src.param.update(x=new, y=99)
            except ValueError:
                self.out.stats['fault.linked_value_rejected_while_a_constant_is_synchronised'] += 1
            for j, m_ in enumerate(self.im):
                if m_.get('linked_k'):
                    m_['values']['k'] = self.insts[j].k if self.insts[j].k is new else m_['values']['k']
                m_['linked_n'] = False          # the source now holds a value n rejects: not followed any further
        elif k == 'srcset_rebind':
            # a watcher of the linked constant, called because the source changed, tries to rebind the object's name (a
            # constant): an ordinary attempt outside edit_constant
            linked = [j for j, m_ in enumerate(self.im) if m_.get('linked_k')]
            if self.ref_src is None or not linked or any(ii == linked[0] for _, ii in self.ec):
                return
            o = self.insts[linked[0]]
            seen = []

            def rebinder(*events):
                try:
                    o.name = f"n{self.counter}"
                    seen.append('accepted')
                except TypeError:
                    seen.append('rejected')
            h = o.param.watch(rebinder, ['k'])
            try:
                self.set_src(self.new_list())
            finally:
                o.param.unwatch(h)
            if 'accepted' in seen:
                self.viol('C14.name_constant', f"a watcher of I{linked[0]}.k, called while the constant follows its source, could rebind I{linked[0]}.name "
                                               f"outside edit_constant")
            if seen:
                self.out.stats['probe.rebind_attempt_from_watcher_during_sync'] += 1
        elif k == 'newkref':
            # a constant linked to a reference by its constructor (allowed there); it follows the source from then on
            if 'k' in self.visible(ci) and not any(m_.get('linked_k') for m_ in self.im) and len(self.insts) < 5:
                self.make_ref_src()
                n0 = len(self.insts)
                self.new_instance(ci, [], kref=True)
                if len(self.insts) > n0:
                    self.im[-1]['linked_k'] = True
                    self.im[-1]['linked_n'] = 'n' in self.visible(ci) and self.insts[-1].n == self.ref_src.y
            else:
                self.new_instance(ci, ['k'])
        elif k == 'kupdate' and has_inst:
            m = self.im[i]
            if 'k' not in self.visible(m['c']) or i in self.fuzzy:
                return
            inside = any(ii == i for _, ii in self.ec)
            new = self.new_list()
            try:
                self.insts[i].param.update(k=new)
            except TypeError:
                if inside:
                    self.viol('C14.raises', f"update(k=...) on I{i} failed inside edit_constant")
                self.out.stats['reject.constant_update'] += 1
                return
            if not inside:
                self.viol('C14.raises', f"constant I{i}.k was rebound through update() outside edit_constant")
            self.ensure_copy(i, 'k')
            m['values']['k'] = new
            m['linked_k'] = False
        elif k == 'rset':
            if 'r' not in self.cfg['used']:
                return
            try:
                if op.get('lvl') == 'cls' or not has_inst:
                    setattr(self.classes[ci], 'r', self.fresh_int())
                else:
                    setattr(self.insts[i], 'r', self.fresh_int())
            except TypeError:
                self.out.stats['reject.readonly'] += 1
                return
            self.viol('C14.raises', f"read-only parameter r was assigned at {op.get('lvl')} level")
        elif k == 'nameset' and has_inst:
            if i in self.fuzzy:
                return
            inside = any(ii == i for _, ii in self.ec)
            try:
                self.insts[i].name = f"n{self.counter}"
            except TypeError:
                if inside:
                    self.viol('C14.raises', f"I{i}.name could not be set inside edit_constant")
                self.out.stats['reject.name'] += 1
                return
            if not inside:
                self.viol('C14.name_constant', f"I{i}.name was assigned after construction, outside edit_constant")
            self.im[i]['name'] = self.insts[i].name
        elif k == 'ec_flagwatch' and has_inst:
            # a watcher of the `constant` attribute of one Parameter fails while edit_constant locks the object again: the other
            # flags are restored all the same
            if any(ii == i for _, ii in self.ec) or i in self.fuzzy:
                return
            o = self.insts[i]
            fired = []

            want = op.get('when') != 'enter'

            def failing(*events):
                if events[0].new is want and not fired:
                    fired.append(1)
                    raise RuntimeError('callback failed')
            h = o.param.watch(failing, ['name'], what='constant')
            try:
                with param.parameterized.edit_constant(o):
                    pass
            except RuntimeError:
                self.out.stats['fault.constant_flag_watcher_raised_on_exit' if want else 'fault.constant_flag_watcher_raised_on_entry'] += 1
            finally:
                o.param.unwatch(h)
            if not want and 'k' in self.visible(self.im[i]['c']):
                # the block was never entered: the object is as locked as before
                try:
                    o.k = self.new_list()
                except TypeError:
                    pass
                else:
                    self.viol('C14.flags', f"edit_constant(I{i}) failed while it was being entered (a watcher of a constant flag raised) and left "
                                           f"I{i}.k editable outside any block")
            for q in ('k', 'r'):
                if q in self.visible(self.im[i]['c']):
                    self.ensure_copy(i, q)
        elif k == 'kec':
            # a complete edit_constant block on a CLASS: inside it an instance may get its own Parameter object, the class may be
            # assigned an inherited constant (it gets its own copy of the Parameter), a watcher of the flag may fail while the block
            # is entered or left. Afterwards every flag is back: no class and no instance of the family can rebind k
            if 'k' not in self.visible(ci) or self.ec or self.fuzzy:
                return
            cls = self.classes[ci]
            mode = op.get('mode', 'plain')
            fired, h = [], None
            if mode in ('watch_enter', 'watch_exit'):
                want = mode == 'watch_exit'

                def failing(*events):
                    if events[0].new is want and not fired:
                        fired.append(1)
                        raise RuntimeError('callback failed')
                h = cls.param.watch(failing, ['k'], what='constant')
            try:
                try:
                    with param.parameterized.edit_constant(cls):
                        if mode == 'touch' and has_inst and 'k' in self.visible(self.im[i]['c']) and \
                                (ci in self.mro[self.im[i]['c']] or self.gov(self.im[i]['c'], 'k')[0] == self.gov(ci, 'k')[0]):
                            # (an instance of the class, or of another class sharing the Parameter object - a base the constant
                            # is inherited from, a sibling)
                            self.insts[i].param['k']
                            self.ensure_copy(i, 'k')
                        elif mode == 'cset':
                            self.do(dict(op, op='cset', p='k'))
                        elif mode == 'cset_sub':
                            # (an inheriting class is assigned the constant while the block is open on its base)
                            subs = [c2 for c2 in range(nc) if c2 != ci and ci in self.mro[c2] and 'k' in self.visible(c2)]
                            if subs:
                                self.do(dict(op, op='cset', p='k', c=subs[op.get('i', 0) % len(subs)]))
                except RuntimeError:
                    self.out.stats['fault.constant_flag_watcher_raised_in_class_block'] += 1
            finally:
                if h is not None:
                    cls.param.unwatch(h)
            self.out.stats['probe.edit_constant_on_a_class.' + mode] += 1
            for c2 in range(nc):
                if 'k' in self.visible(c2) and (ci in self.mro[c2] or c2 in self.mro[ci]):
                    if not self.classes[c2].param.objects(instance=False)['k'].constant:
                        self.viol('C14.flags', f"after edit_constant(K{ci}) ({mode}) the Parameter k of K{c2} is no longer constant")
            for j, o in enumerate(self.insts):
                if 'k' in self.visible(self.im[j]['c']) and (ci in self.mro[self.im[j]['c']] or
                                                             self.gov(self.im[j]['c'], 'k')[0] == self.gov(ci, 'k')[0]):
                    try:
                        o.k = self.new_list()
                    except TypeError:
                        continue
                    self.viol('C14.flags', f"after edit_constant(K{ci}) ({mode}) I{j}.k can be rebound outside any block "
                                           f"(obj.param.k.constant is {o.param.k.constant})")
                    break
        elif k == 'ec_flagflip' and has_inst:
            # code inside the block flips the `constant` flags it finds itself (the idiom of libraries built on param:
            # obj.param.objects('existing') -> constant = False ... restore) and assigns meanwhile; the instance gets its own
            # Parameter object then. Once the blocks are left the object is locked again
            m = self.im[i]
            if 'k' not in self.visible(m['c']) or any(ii == i for _, ii in self.ec) or i in self.fuzzy:
                return
            o = self.insts[i]
            new = self.new_list()
            with param.parameterized.edit_constant(o):
                flags = [(pobj, pobj.constant) for pobj in o.param.objects('existing').values()]
                for pobj, _ in flags:
                    pobj.constant = False
                try:
                    o.k = new
                finally:
                    if op.get('lookup'):
                        # (the variant that finds the Parameters again by name: by now the instance has its own object for k,
                        # and the class-level flag that was switched off is not found again)
                        for pobj, flag in flags:
                            o.param.objects('existing')[pobj.name].constant = flag
                    else:
                        for pobj, flag in flags:
                            pobj.constant = flag
            self.ensure_copy(i, 'k')
            m['values']['k'] = new
            m['linked_k'] = False
            self.out.stats['probe.constant_flags_flipped_by_hand_inside_edit_constant'] += 1
            try:
                o.k = self.new_list()
            except TypeError:
                pass
            else:
                self.viol('C14.flags', f"after edit_constant(I{i}) - inside which the constant flags were flipped by hand and I{i}.k was assigned - "
                                       f"I{i}.k can still be rebound (obj.param.k.constant is {o.param.k.constant})")
            if not type(o).param.objects(instance=False)['k'].constant:
                self.viol('C14.flags', f"after edit_constant(I{i}) - inside which the constant flags were flipped by hand "
                                       f"({'restored by name' if op.get('lookup') else 'restored'}) - the class-level Parameter k is no longer constant")
        elif k == 'ecblock' and has_inst:
            # a complete edit_constant block on an instance (entered internally by reference syncing too): no effect on any namespace
            with param.parameterized.edit_constant(self.insts[i]):
                pass
            for q in ('k', 'r'):
                if q in self.visible(self.im[i]['c']):
                    self.ensure_copy(i, q)
        elif k == 'ec_open' and has_inst:
            cm = param.parameterized.edit_constant(self.insts[i])
            cm.__enter__()
            self.ec.append((cm, i))
            for q in ('k', 'r'):
                if q in self.visible(self.im[i]['c']):
                    self.ensure_copy(i, q)
        elif k == 'ec_close_first' and self.ec:
            # overlapping blocks left in the order they were entered (generators, tasks, ExitStack): while one of them is still
            # open the state of the object is not decided, once all are closed it is locked again
            cm, ii = self.ec.pop(0)
            if any(j == ii for _, j in self.ec):
                self.fuzzy.add(ii)
                self.out.stats['probe.edit_constant_blocks_left_out_of_order'] += 1
            cm.__exit__(None, None, None)
            self.fuzzy = {j for j in self.fuzzy if any(x == j for _, x in self.ec)}
        elif k in ('ec_close', 'ec_raise') and self.ec:
            cm, ii = self.ec.pop()
            if k == 'ec_raise':
                self.probe['ec_raise'] = True
                try:
                    cm.__exit__(RuntimeError, RuntimeError('injected failure in edit_constant body'), None)
                except RuntimeError:
                    pass
                self.out.stats['fault.edit_constant_left_by_exception'] += 1
            else:
                cm.__exit__(None, None, None)
            self.fuzzy = {j for j in self.fuzzy if any(x == j for _, x in self.ec)}

    def execute(self):
        out = self.out
        self.last_kind = ''
        self.build()
        prop = self.prop
        states = []
        for step, op in enumerate(self.case['ops'], 1):
            self.step = step
            self.last_kind = op['op']
            out.log.append(f"{step} {op}")
            out.stats['op.' + op['op']] += 1
            try:
                self.do(op)
            except _Stop:
                raise
            except Exception as e:      # noqa
                self.viol(f"{prop}.exception", f"{op['op']} raised {type(e).__name__}: {str(e)[:200]}")
            where = f"after step {step} ({op['op']})"
            try:
                if prop == 'C12':
                    self.check_c12(where)
                elif prop == 'C13':
                    self.check_c13(where, only=set(op['chk']) if 'chk' in op else None)
                else:
                    self.check_c14(where)
            except _Stop:
                raise
            except Exception as e:      # noqa  - the library's own API failed while being observed
                self.viol(f"{prop}.exception", f"{where}: observing the objects raised {type(e).__name__}: {str(e)[:200]}")
            states.append(f"{self.cfg['shape']}|{sum(len(o) for o in self.own)}|{sum(len(m['copies']) for m in self.im)}|{op['op']}")
        if prop == 'C13':
            self.step = len(self.case['ops']) + 1
            try:
                self.check_c13('at the end')
            except _Stop:
                raise
            except Exception as e:      # noqa
                self.viol('C13.exception', f"at the end: observing the objects raised {type(e).__name__}: {str(e)[:200]}")
        # leave every context, then the flags must be back
        if prop == 'C14':
            try:
                while self.ec:
                    cm, _ = self.ec.pop()
                    cm.__exit__(None, None, None)
                self.step = len(self.case['ops']) + 1
                self.check_c14('at the end')
            except _Stop:
                raise
            except Exception as e:      # noqa
                self.viol('C14.exception', f"leaving the remaining edit_constant blocks raised {type(e).__name__}: {str(e)[:200]}")
        out.states = tuple(states)
        pr = self.probe
        sk = ','.join(op['op'] for op in self.case['ops'])
        if prop == 'C12' and pr['inherit_cset'] and pr['mut']:
            out.sig = self.cfg['shape'] + sk
        if prop == 'C13' and pr['stale_risk']:
            out.sig = self.cfg['shape'] + sk
        if prop == 'C14' and (pr['ec_raise'] or pr['cset_before_attempt']):
            out.sig = self.cfg['shape'] + sk
        for a, b in pr.items():
            if b:
                out.stats['probe.' + a] += 1


register(ClassWorld())
