"""SelectorWorld — C18: a Selector's objects list, names mapping, get_range() and accepted values stay consistent
under any sequence of style-consistent mutations.

Real: param.Selector / ListSelector, ListProxy, _named_objs, Parameter.__setattr__/_trigger_event, validation.
Model: an ordered list of (name, object) — nothing else.
"""
from ..kernel import Outcome, register, weighted


class SelectorWorld:
    name = 'selector'
    props = ('C18',)
    levels = {'C18': 'exploration'}
    chunk = 600
    budget = {'quick': dict(runs=40000, wall=180.0), 'thorough': dict(runs=2000000, wall=900.0)}
    time_unit = 'n/a: logical steps only'
    state_measure = 'distinct (style, number of objects, last mutator) triples after each step'
    components = {'real': ['param.parameters.Selector/ListSelector/ListProxy', 'param._utils._named_objs',
                           'Parameter.__setattr__/_trigger_event', 'Selector validation through real assignments'],
                  'stub': ['objects watcher (harness callback that logs)', 'sequential reference container (ordered (name, object) list)']}
    rules = {'C18': 'case = declaration (Selector|ListSelector, list- or dict-declared, class-level or per-instance Parameter, str or int '
                    'objects) + history of style-consistent mutations (item/key assignment, append, insert, extend, update, pop by '
                    'index/key, remove, clear, wholesale replacement incl. style switch) interleaved with value assignments; after every '
                    'step five views are compared with the model and a present and an absent value are probed; non-trivial = at least 2 '
                    'different mutators ran and at least one removed an object; distinct = distinct mutator sequences.'}
    assumptions = {'C18': ['only style-consistent operations on unique hashable objects are generated (as the property states)',
                           'the objects watcher is registered with onlychanged=False so "once per mutation" does not depend on change detection']}

    def gen(self, rng, prop, tier, avoid):
        big = tier == 'thorough'
        cfg = {'kind': rng.choice(['Selector', 'Selector', 'ListSelector']),
               'style': rng.choice(['list', 'dict']),
               'level': rng.choice(['class', 'instance']),
               'otype': rng.choice(['str', 'str', 'int']),
               'n0': rng.randint(1, 4),
               'allow_None': rng.random() < 0.3,
               'watch': rng.random() < 0.7,
               'hold': rng.random() < 0.4,
               'unchecked': rng.random() < 0.25,
               'none_obj': rng.random() < 0.2}
        n_ops = min(60 if big else 30, 2 + int(rng.expovariate(1 / (14.0 if big else 8.0))))
        ops = []
        style = cfg['style']
        for _ in range(n_ops):
            if style == 'list':
                k = weighted(rng, [('setitem', 3), ('append', 3), ('insert', 2), ('extend', 2), ('pop', 3), ('poplast', 1),
                                   ('remove', 2), ('clear', 0.5), ('replace', 1), ('assign', 3), ('assign_absent', 1),
                                   ('assign_new', 2 if cfg['unchecked'] else 0), ('reassign_view', 0.5)])
            else:
                k = weighted(rng, [('setkey', 3), ('newkey', 3), ('update', 2), ('popkey', 3), ('pop', 1.5), ('remove', 2), ('clear', 0.5),
                                   ('replace', 1), ('assign', 3), ('assign_absent', 1), ('assign_new', 2 if cfg['unchecked'] else 0),
                                   ('reassign_view', 0.5)])
            op = {'op': k, 'i': rng.randint(0, 7)}
            if k in ('extend', 'update'):
                op['n'] = rng.randint(0, 3)
                op['kw'] = rng.random() < 0.3
                op['j'] = rng.randint(0, 7)
            if k == 'replace':
                op['style'] = rng.choice(['list', 'dict'])
                op['n'] = rng.randint(0, 4)
                style = op['style']
            ops.append(op)
        return {'cfg': cfg, 'ops': ops}

    def skeleton(self, case):
        return [case['cfg']['style']] + [op['op'] for op in case['ops']]

    def simplify(self, case):
        cfg = case['cfg']
        for key, simple in (('kind', 'Selector'), ('level', 'class'), ('otype', 'str'), ('n0', 1), ('n0', 2), ('allow_None', False), ('watch', False), ('hold', False)):
            if cfg.get(key) != simple:
                yield {**case, 'cfg': {**cfg, key: simple}}
        ops = case['ops']
        for i, op in enumerate(ops):
            for key, simple in (('i', 0), ('n', 1), ('n', 0), ('kw', False), ('j', 0)):
                if key in op and op[key] != simple:
                    yield {**case, 'ops': ops[:i] + [{**op, key: simple}] + ops[i + 1:]}

    # ------------------------------------------------------------------------------------------
    def run(self, case):
        import param
        out = Outcome()
        cfg = case['cfg']
        counter = [0]

        def fresh():
            counter[0] += 1
            if cfg.get('none_obj') and counter[0] == 2:
                return None         # None is an object like any other (once: objects are unique)
            return f"o{counter[0]}" if cfg['otype'] == 'str' else 100 + counter[0]

        def key():
            counter[0] += 1
            return f"k{counter[0]}"

        items = []          # the model: ordered (name, object)
        style = cfg['style']
        for _ in range(cfg['n0']):
            o = fresh()
            items.append((key() if style == 'dict' else str(o), o))
        decl = dict(items) if style == 'dict' else [o for _, o in items]
        P = getattr(param, cfg['kind'])
        unchecked = bool(cfg.get('unchecked'))
        unnamed = []        # objects an unchecked dict-declared selector took in through a value assignment: they have no name,
                            # get_range() lists them under str(object), names and objects.items() leave them out
        kw = {'objects': decl, 'allow_None': cfg['allow_None']}
        if unchecked:
            kw['check_on_set'] = False          # unknown values are added to the objects instead of being rejected
        if cfg['kind'] == 'ListSelector':
            kw['default'] = [items[0][1]]
        C = type('S', (param.Parameterized,), {'sel': P(**kw)})
        inst = C()
        holder = C if cfg['level'] == 'class' else inst
        pobj = holder.param['sel'] if cfg['level'] == 'instance' else C.param['sel']
        notes = []
        notes_changed = []
        inconsistent = []
        if cfg['watch']:
            def cb(*events):
                notes.append(len(events))
                # at notification time the views must already agree with each other and with the event
                lst = list(pobj.objects)
                rng_ = list(pobj.get_range().values())
                nm = list(pobj.names.values())
                ev_new = events[-1].new
                ev_objs = list(ev_new.values()) if isinstance(ev_new, dict) else list(ev_new)
                if unnamed and nm:
                    lst = [o_ for o_ in lst if not any(o_ is u for u in unnamed)]
                    rng_ = [o_ for o_ in rng_ if not any(o_ is u for u in unnamed)]
                if lst != rng_ or (nm and nm != lst) or ev_objs != lst:
                    inconsistent.append(f"list {lst!r} range {rng_!r} names {nm!r} event.new {ev_objs!r}")

            def cb_changed(*events):
                notes_changed.append(len(events))
            if cfg['level'] == 'class':
                C.param.watch(cb, ['sel'], what='objects', onlychanged=False)
                C.param.watch(cb_changed, ['sel'], what='objects')
            else:
                inst.param.watch(cb, ['sel'], what='objects', onlychanged=False)
                inst.param.watch(cb_changed, ['sel'], what='objects')
        removed = []
        held = [None]
        mutators = set()
        removed_any = False
        states = []

        def viol(clause, detail, step):
            if not out.violations:
                out.violations.append((clause, step, detail))

        def check(step, opname):
            exp_objs = [o for _, o in items]
            v1 = list(pobj.objects)
            if v1 != exp_objs:
                return viol('C18.views', f"after {opname}: list(objects) = {v1!r}, expected {exp_objs!r}", step)
            named = [(n_, o_) for n_, o_ in items if not any(o_ is u for u in unnamed)] if style == 'dict' else items
            v2 = list(pobj.objects.items())
            names = list(pobj.names.items())
            if style == 'dict' and not named and items:
                # no name is left: the remaining (unnamed) objects are listed under str(object), as on a list-declared selector
                if v2 != items or names:
                    return viol('C18.views', f"after {opname}: objects.items() = {v2!r}, names = {names!r}; expected {items!r} and no names", step)
            else:
                if v2 != named:
                    return viol('C18.views', f"after {opname}: objects.items() = {v2!r}, expected {named!r} (names = {dict(pobj.names)!r})", step)
                if style == 'dict' and names != named:
                    return viol('C18.views', f"after {opname}: names = {names!r}, expected {named!r}", step)
            if style == 'list' and names:
                return viol('C18.views', f"after {opname}: names = {names!r} on a list-declared selector", step)
            v4 = list(pobj.get_range().items())
            if v4 != items:
                return viol('C18.views', f"after {opname}: get_range() = {v4!r}, expected {items!r}", step)
            # membership probes through real assignments
            if exp_objs:
                o = exp_objs[(step * 7) % len(exp_objs)]
                try:
                    setattr(holder, 'sel', [o] if cfg['kind'] == 'ListSelector' else o)
                except Exception as e:     # noqa
                    return viol('C18.membership', f"after {opname}: current object {o!r} rejected: {type(e).__name__}", step)
            if unchecked:
                return
            absent = removed[-1] if removed and removed[-1] not in exp_objs and removed[-1] is not None else 'never-present'
            try:
                setattr(holder, 'sel', [absent] if cfg['kind'] == 'ListSelector' else absent)
            except ValueError:
                pass
            except Exception as e:     # noqa
                return viol('C18.membership', f"after {opname}: absent value {absent!r} raised {type(e).__name__}, expected ValueError", step)
            else:
                return viol('C18.membership', f"after {opname}: absent value {absent!r} was accepted; objects are {exp_objs!r}", step)

        check(0, 'declaration')
        for step, op in enumerate(case['ops'], 1):
            if out.violations:
                break
            k = op['op']
            n = len(items)
            unnamed[:] = [u for u in unnamed if any(u is o_ for _, o_ in items)]
            before = len(notes)
            before_c = len(notes_changed)
            items_before = list(items)
            mutated = True
            ret = exp_ret = None
            check_ret = False
            if cfg.get('hold'):
                # one proxy object is fetched once and reused for every mutation (re-fetched after a wholesale replacement)
                if held[0] is None:
                    held[0] = pobj.objects
                objs = held[0]
            else:
                objs = pobj.objects
            try:
                if k == 'setitem' and style == 'list' and n:
                    i = op['i'] % n
                    o = fresh()
                    removed.append(items[i][1])
                    objs[i] = o
                    items[i] = (str(o), o)
                    removed_any = True
                elif k == 'append' and style == 'list':
                    o = fresh()
                    objs.append(o)
                    items.append((str(o), o))
                elif k == 'insert' and style == 'list':
                    o = fresh()
                    i = op['i'] % (n + 1)
                    objs.insert(i, o)
                    items.insert(i, (str(o), o))
                elif k == 'extend' and style == 'list':
                    new = [fresh() for _ in range(op['n'])]
                    objs.extend(iter(new) if op.get('j', 0) % 2 else new)       # any iterable, also a one-shot iterator
                    items.extend((str(o), o) for o in new)
                elif k in ('pop', 'poplast') and n and (style == 'list' or k == 'pop'):      # pop(int) is supported (no deprecation warning) on dict-declared objects too
                    i = op['i'] % n if k == 'pop' else n - 1
                    exp_ret = items[i][1]
                    ret = objs.pop(i) if k == 'pop' else objs.pop()
                    check_ret = True
                    removed.append(items.pop(i)[1])
                    removed_any = True
                elif k == 'remove' and n:
                    i = op['i'] % n
                    victim = items[i][1]
                    if op.get('i', 0) % 3 == 0 and victim is not None:
                        # an equal object that is not the identical one (a string or number built afresh)
                        victim = ''.join(list(victim)) if isinstance(victim, str) else int(str(victim))
                    objs.remove(victim)
                    removed.append(items.pop(i)[1])
                    removed_any = True
                elif k == 'clear':
                    objs.clear()
                    removed.extend(o for _, o in items)
                    removed_any = removed_any or bool(items)
                    del items[:]
                elif k in ('setkey', 'popkey') and style == 'dict' and n and any(items[op['i'] % n][1] is u for u in unnamed):
                    mutated = False
                    k = None
                elif k == 'setkey' and style == 'dict' and n:
                    i = op['i'] % n
                    o = fresh()
                    removed.append(items[i][1])
                    objs[items[i][0]] = o
                    items[i] = (items[i][0], o)
                    removed_any = True
                elif k == 'newkey' and style == 'dict':
                    if unnamed and len(unnamed) == len(items):
                        del unnamed[:]          # the first key given to a selector without names names every object by str(object)
                    o, kk = fresh(), key()
                    objs[kk] = o
                    items.append((kk, o))
                elif k == 'update' and style == 'dict':
                    if unnamed and len(unnamed) == len(items):
                        del unnamed[:]
                    new = []
                    for j in range(op['n']):
                        if n and j == 0 and op['j'] % 2 and not any(items[op['j'] % n][1] is u for u in unnamed):
                            kk = items[op['j'] % n][0]
                        else:
                            kk = key()
                        new.append((kk, fresh()))
                    if op['kw']:
                        objs.update({}, **dict(new))
                    elif op['j'] % 3 == 0:
                        objs.update(list(new))
                    else:
                        objs.update(dict(new))
                    for kk, o in dict(new).items():
                        idx = [x for x, (nm, _) in enumerate(items) if nm == kk]
                        if idx:
                            removed.append(items[idx[0]][1])
                            items[idx[0]] = (kk, o)
                        else:
                            items.append((kk, o))
                elif k == 'popkey' and style == 'dict' and n:
                    i = op['i'] % n
                    exp_ret = items[i][1]
                    ret = objs.pop(items[i][0])
                    check_ret = True
                    removed.append(items.pop(i)[1])
                    removed_any = True
                elif k == 'replace':
                    style = op['style']
                    new = []
                    for _ in range(op['n']):
                        o = fresh()
                        new.append((key() if style == 'dict' else str(o), o))
                    removed.extend(o for _, o in items)
                    pobj.objects = dict(new) if style == 'dict' else [o for _, o in new]
                    items[:] = new
                    del unnamed[:]
                    held[0] = None
                elif k == 'reassign_view':
                    # the objects view assigned back to the Selector it came from: nothing changes (no aliasing, no recursion)
                    pobj.objects = pobj.objects
                    held[0] = None
                    mutated = False
                    del inconsistent[:]     # (the event of this assignment carries the view itself, unnamed objects included)
                elif k == 'assign' and n:
                    o = items[op['i'] % n][1]
                    setattr(holder, 'sel', [o] if cfg['kind'] == 'ListSelector' else o)
                    mutated = False
                    got = getattr(holder, 'sel')
                    if got != ([o] if cfg['kind'] == 'ListSelector' else o):
                        viol('C18.membership', f"assigned {o!r}, attribute reads {got!r}", step)
                elif k == 'assign_new' and unchecked:
                    # an unchecked selector adds unknown values to its objects - once each, also when a value lists one twice
                    o = fresh()
                    setattr(holder, 'sel', [o, o] if cfg['kind'] == 'ListSelector' else o)
                    items.append((str(o), o))
                    if style == 'dict':
                        unnamed.append(o)
                    held[0] = None       # the objects changed behind a held proxy's back: fetch a new one
                    mutated = False      # not a mutation of `objects` through the proxy: no objects-notification is demanded
                elif k == 'assign_absent':
                    mutated = False      # the per-step probe covers it
                else:
                    mutated = False
                    k = None
            except Exception as e:      # noqa
                viol('C18.exception', f"{k} raised {type(e).__name__}: {str(e)[:120]} with objects {items!r}", step)
                break
            if k is None:
                out.log.append(f"{step} skip {op['op']}")
                continue
            out.log.append(f"{step} {k} -> {items!r}")
            out.stats['op.' + k] += 1
            if mutated:
                mutators.add(k)
                if cfg['watch'] and len(notes) - before != 1:
                    viol('C18.notify_once', f"{k}: the objects watcher was called {len(notes) - before} times", step)
                if cfg['watch'] and inconsistent:
                    viol('C18.views', f"{k}: when the objects watcher was notified the views disagreed: {inconsistent[0]}", step)
                only_unnamed = unnamed and [x for x in items if not any(x[1] is u for u in unnamed)] == \
                    [x for x in items_before if not any(x[1] is u for u in unnamed)]
                if cfg['watch'] and items != items_before and not only_unnamed and len(notes_changed) - before_c != 1:
                    viol('C18.notify_once', f"{k}: objects changed {items_before!r} -> {items!r} but the changes-only objects watcher was called "
                                            f"{len(notes_changed) - before_c} times", step)
            if check_ret and ret != exp_ret:
                viol('C18.pop_returns', f"{k} returned {ret!r}, removed object is {exp_ret!r}", step)
            if not out.violations and cfg.get('hold') and held[0] is not None and mutated:
                if list(held[0]) != [o for _, o in items]:
                    viol('C18.views', f"after {k}: the objects proxy used for the mutation lists {list(held[0])!r}, expected {[o for _, o in items]!r}", step)
            if not out.violations:
                check(step, k)
            states.append(f"{style}|{len(items)}|{k}")
        if len(mutators) >= 2 and removed_any:
            out.sig = cfg['kind'] + cfg['style'] + cfg['level'] + ':' + ','.join(l.split(' ')[1] for l in out.log if ' skip ' not in l)
        out.states = tuple(states)
        return out


register(SelectorWorld())
