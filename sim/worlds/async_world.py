"""AsyncWorld — C10: the latest assignment wins under every asynchronous completion order.

Real code: param (Parameter.__set__, _resolve_ref, _update_ref, _sync_refs, _async_ref, async_executor,
_to_async_gen, bind, rx._resolve_async), CPython asyncio Task/Future.
Stubs: the event loop (SimLoop: virtual clock, FIFO one-handle steps, parked executor jobs) and the awaitable
bodies (harness coroutines awaiting numbered gates).

A case is a flat schedule.  Every element is one scheduler decision:
  {"op":"run"}                     run the next ready handle (or jump the clock to the next timer)
  {"op":"do", ...}                 append a driver operation at the TAIL of the ready queue (as an I/O callback would)
  {"op":"resolve","k":k,"fail":b}  complete the k-th oldest unresolved gate (handle at the tail)
  {"op":"job","k":k}               complete the k-th oldest parked executor job (handle at the tail)
After the last element the world resolves every remaining gate/job in creation order and drains to quiescence.
"""
import asyncio
import inspect

from ..kernel import Outcome, register, weighted
from ..simloop import SimLoop

ASYNC_KINDS = ('coro', 'agen', 'sgen', 'bcoro', 'bagen', 'bsgen')
SYNC_KINDS = ('plain', 'pref', 'bsync')
PNAMES = ('a', 'b', 'c')


class AsyncWorld:
    name = 'async'
    props = ('C10',)
    levels = {'C10': 'exploration'}
    chunk = 1500
    budget = {'quick': dict(runs=150000, wall=180.0), 'thorough': dict(runs=6000000, wall=900.0)}
    time_unit = 'virtual seconds on the simulated asyncio clock'
    state_measure = ('distinct (pending-task count, latest-assignment kinds per parameter, queue depth) tuples '
                     'observed after each scheduler step')
    components = {
        'real': ['param.parameterized (Parameter.__set__, _resolve_ref, _update_ref, _sync_refs, _async_ref, update)',
                 'param._utils.async_executor/_to_async_gen', 'param.reactive.bind / rx pipeline',
                 'CPython asyncio.Task / Future'],
        'stub': ['event loop (SimLoop: virtual clock, FIFO single-step ready queue, no selector)',
                 'executor threads (jobs parked and completed by the scheduler)',
                 'awaitable bodies (harness coroutines / generators awaiting numbered gates)'],
    }
    rules = {'C10': 'case = seeded schedule of driver operations (assign coroutine/async-generator/sync-generator/bound-async/'
                    'plain/Parameter reference, source change, rx input update/read) interleaved with single loop steps, '
                    'gate resolutions (optionally failing) and executor-job completions; non-trivial = at least one assignment '
                    'or source change landed while an awaitable of the same target was pending, or two awaitables completed in an '
                    'order different from their creation order; distinct = distinct normalised event-kind sequences.'}
    assumptions = {'C10': ['asyncio FIFO call_soon order is kept (handles never overtake each other)',
                           'awaitable bodies are harness code; each returns a value unique to (assignment, source value, item)',
                           'caller threads are not simulated; executor jobs complete only on the loop thread at a scheduler-chosen point']}

    # ------------------------------------------------------------------ generation
    def gen(self, rng, prop, tier, avoid):
        big = tier == 'thorough'
        mode = weighted(rng, [('ref', 7), ('rx', 3), ('noloop', 0.6)])
        if mode == 'noloop':
            return self._gen_noloop(rng)
        cfg = {
            'mode': mode,
            'n_targets': rng.choice([1, 1, 2]),
            'n_params': rng.choice([1, 1, 2, 3]),
            'max_assign': rng.choice([2, 3, 3, 4, 5]),
            'kinds': None,
            'p_run': rng.choice([0.25, 0.4, 0.55, 0.7]),
            'faults': sorted(f for f in ('gate_fail', 'raise', 'skip', 'sleep', 'src', 'end_raise')
                             if rng.random() < 0.5),
            'ctor_link': rng.random() < 0.25,
            'ctor_kind': rng.choice(['coro', 'agen', 'bcoro', 'sgen']),
            'update_ctx': rng.random() < 0.3,
        }
        if rng.random() < 0.25:
            cfg['faults'] = []           # fault-free share
        pool = list(ASYNC_KINDS) + list(SYNC_KINDS)
        k = rng.randint(2, len(pool))
        kinds = rng.sample(pool, k)
        if not any(x in ASYNC_KINDS for x in kinds):
            kinds.append(rng.choice(ASYNC_KINDS))
        if mode == 'ref' and rng.random() < 0.25:
            # typed targets: a result can be rejected by the parameter when it is applied (the evaluation then counts for nothing)
            cfg['typed'] = True
            kinds = [x for x in kinds if x != 'pref'] or ['coro']
            if not any(x in ASYNC_KINDS for x in kinds):
                kinds.append('coro')
        cfg['kinds'] = sorted(kinds)
        n_ops = min(90 if big else 60, 4 + int(rng.expovariate(1 / (22.0 if big else 14.0))))
        ops = []
        nid = [0]
        assigns = 0
        max_assign_total = cfg['max_assign'] * cfg['n_targets']
        if mode == 'rx':
            return self._gen_rx(rng, cfg, n_ops)
        for _ in range(n_ops):
            r = rng.random()
            if r < cfg['p_run']:
                ops.append({'op': 'run'})
                continue
            choice = weighted(rng, [('assign', 5 if assigns < max_assign_total else 0),
                                    ('src', 2 if 'src' in cfg['faults'] else 0.3),
                                    ('resolve', 4), ('job', 2), ('run', 1),
                                    ('uopen', 0.8 if cfg['update_ctx'] else 0), ('uclose', 1.0 if cfg['update_ctx'] else 0)])
            if choice == 'assign':
                assigns += 1
                nid[0] += 1
                ops.append({'op': 'do', 'do': 'assign', **self._gen_assign(rng, cfg, nid[0])})
                if rng.random() < 0.15 and assigns < max_assign_total:     # back-to-back, no loop step between
                    assigns += 1
                    nid[0] += 1
                    nxt = self._gen_assign(rng, cfg, nid[0])
                    nxt['t'], nxt['p'] = ops[-1]['t'], ops[-1]['p']
                    ops.append({'op': 'do', 'do': 'assign', **nxt})
            elif choice == 'src':
                ops.append({'op': 'do', 'do': 'src'})
            elif choice == 'uopen':
                nid[0] += 1
                ops.append({'op': 'do', 'do': 'uopen', 't': rng.randrange(cfg['n_targets']), 'p': rng.randrange(cfg['n_params']), 'id': nid[0]})
            elif choice == 'uclose':
                ops.append({'op': 'do', 'do': 'uclose', 't': rng.randrange(cfg['n_targets'])})
            elif choice == 'resolve':
                ops.append({'op': 'resolve', 'k': rng.randint(0, 3),
                            'fail': 'gate_fail' in cfg['faults'] and rng.random() < 0.15})
            elif choice == 'job':
                ops.append({'op': 'job', 'k': rng.randint(0, 2)})
            else:
                ops.append({'op': 'run'})
        return {'cfg': cfg, 'ops': ops}

    def _gen_assign(self, rng, cfg, i):
        kind = rng.choice(cfg['kinds'])
        d = {'t': rng.randrange(cfg['n_targets']), 'p': rng.randrange(cfg['n_params']), 'kind': kind, 'id': i}
        if kind in ASYNC_KINDS:
            d['gates'] = rng.choice([0, 1, 1, 1, 2])
            d['items'] = 1 if kind in ('coro', 'bcoro') else rng.choice([1, 2, 2, 3])
            out = 'value'
            if 'raise' in cfg['faults'] and rng.random() < 0.12:
                out = 'raise'
            elif 'skip' in cfg['faults'] and rng.random() < 0.12:
                out = 'skip'
            elif 'end_raise' in cfg['faults'] and kind not in ('coro', 'bcoro') and rng.random() < 0.15:
                out = 'end_raise'
            elif cfg.get('typed') and kind in ('coro', 'bcoro') and rng.random() < 0.3:
                out = 'invalid'
            d['out'] = out
            if out == 'value' and kind in ('coro', 'bcoro') and rng.random() < 0.08:
                d['self_plain'] = True
            if out == 'value' and kind in ('agen', 'bagen') and d['items'] > 1 and rng.random() < 0.12:
                d['plain_on_first'] = True
            d['sleep'] = rng.choice([0.5, 5, 60]) if ('sleep' in cfg['faults'] and rng.random() < 0.25) else 0
        return d

    def _gen_noloop(self, rng):
        """plain script, no running event loop: the executor runs every awaitable to completion inside the assignment"""
        faulty = rng.random() < 0.4          # failing / skipping awaitables; then the source never changes (see execute_noloop)
        cfg = {'mode': 'noloop', 'n_targets': rng.choice([1, 2]), 'n_params': rng.choice([1, 2, 3]), 'faults': ['raise', 'skip'] if faulty else [],
               'kinds': ['plain', 'pref', 'bsync', 'coro', 'agen', 'bcoro', 'bagen'], 'max_assign': 6, 'p_run': 0, 'ctor_link': False,
               'update_ctx': False}
        ops = []
        for i in range(1, rng.randint(2, 10)):
            if rng.random() < 0.3:
                ops.append({'op': 'do', 'do': 'src'})
                continue
            kind = rng.choice(cfg['kinds'])
            d = {'op': 'do', 'do': 'assign', 't': rng.randrange(cfg['n_targets']), 'p': rng.randrange(cfg['n_params']), 'kind': kind, 'id': i,
                 'gates': 0, 'sleep': 0, 'items': 1 if kind in ('coro', 'bcoro') else rng.choice([1, 2, 3]), 'out': 'value'}
            if faulty and kind in ('coro', 'agen') and rng.random() < 0.4:
                d['out'] = rng.choice(['raise', 'skip'])
            ops.append(d)
        return {'cfg': cfg, 'ops': ops}

    def _gen_rx(self, rng, cfg, n_ops):
        cfg['stage'] = rng.choice(['coro', 'agen', 'sgen'])
        cfg['root'] = rng.choice(['rx', 'param'])
        cfg['gates'] = rng.choice([1, 1, 2])
        cfg['items'] = 1 if cfg['stage'] == 'coro' else rng.choice([1, 2, 3])
        cfg['post'] = rng.random() < 0.5          # a sync stage after the async one
        ops = []
        updates = 0
        for _ in range(n_ops):
            if rng.random() < cfg['p_run']:
                ops.append({'op': 'run'})
                continue
            choice = weighted(rng, [('set', 4 if updates < 6 else 0), ('read', 2), ('resolve', 4), ('job', 2), ('run', 1)])
            if choice == 'set':
                updates += 1
                ops.append({'op': 'do', 'do': 'rxset'})
            elif choice == 'read':
                ops.append({'op': 'do', 'do': 'rxread'})
            elif choice == 'resolve':
                ops.append({'op': 'resolve', 'k': rng.randint(0, 3),
                            'fail': 'gate_fail' in cfg['faults'] and rng.random() < 0.15})
            elif choice == 'job':
                ops.append({'op': 'job', 'k': rng.randint(0, 2)})
            else:
                ops.append({'op': 'run'})
        return {'cfg': cfg, 'ops': ops}

    # ------------------------------------------------------------------ shrinking support
    def skeleton(self, case):
        sk = []
        for op in case['ops']:
            if op['op'] == 'do':
                if op['do'] == 'assign':
                    sk.append(f"assign:{op['kind']}")
                elif op['do'] in ('uopen', 'uclose'):
                    sk.append(op['do'])
                else:
                    sk.append(op['do'])
            elif op['op'] == 'resolve':
                sk.append('resolve!' if op.get('fail') else 'resolve')
            else:
                sk.append(op['op'])
        return sk

    def simplify(self, case):
        ops = case['ops']
        cfg = case['cfg']
        # fewer targets / params
        for key in ('n_targets', 'n_params'):
            if cfg.get(key, 1) > 1:
                c2 = dict(cfg)
                c2[key] = cfg[key] - 1
                yield {**case, 'cfg': c2}
        if cfg.get('ctor_link'):
            yield {**case, 'cfg': {**cfg, 'ctor_link': False}}
        for i, op in enumerate(ops):
            if op['op'] == 'do' and op.get('do') == 'assign':
                for key, simple in (('sleep', 0), ('out', 'value'), ('gates', 1), ('gates', 0), ('items', 1), ('t', 0), ('p', 0)):
                    if key in op and op[key] != simple:
                        yield {**case, 'ops': ops[:i] + [{**op, key: simple}] + ops[i + 1:]}
                for simple in ('plain', 'coro'):
                    if op['kind'] != simple and (op['kind'] in ASYNC_KINDS) == (simple in ASYNC_KINDS):
                        o2 = {**op, 'kind': simple}
                        if simple == 'coro':
                            o2['items'] = 1
                            if o2.get('out') == 'end_raise':
                                o2['out'] = 'value'
                        yield {**case, 'ops': ops[:i] + [o2] + ops[i + 1:]}
            elif op['op'] == 'resolve':
                if op.get('fail'):
                    yield {**case, 'ops': ops[:i] + [{**op, 'fail': False}] + ops[i + 1:]}
                if op.get('k'):
                    yield {**case, 'ops': ops[:i] + [{**op, 'k': 0}] + ops[i + 1:]}
            elif op['op'] == 'job' and op.get('k'):
                yield {**case, 'ops': ops[:i] + [{**op, 'k': 0}] + ops[i + 1:]}
        if cfg['mode'] == 'rx':
            for key, simple in (('stage', 'coro'), ('post', False), ('gates', 1), ('items', 1), ('root', 'rx')):
                if cfg.get(key) != simple:
                    c2 = {**cfg, key: simple}
                    if c2['stage'] == 'coro':
                        c2['items'] = 1
                    yield {**case, 'cfg': c2}

    # ------------------------------------------------------------------ execution
    def run(self, case):
        r = _Run(case)
        try:
            r.execute()
        finally:
            r.loop.shutdown()
        return r.out


class _Eval:
    __slots__ = ('aid', 'x', 'items', 'ended', 'n')

    def __init__(self, aid, x, n):
        self.aid, self.x, self.items, self.ended, self.n = aid, x, [], None, n


class _Run:

    def __init__(self, case):
        import param
        self.param = param
        self.case = case
        self.cfg = case['cfg']
        self.out = Outcome()
        self.loop = SimLoop()
        self.loop.install()
        self.seq = 0
        self.gates = []          # [future, aid, resolved?]
        self.evals = []          # _Eval in start order
        self.violated = set()
        self.states = set()

    # -- logging -----------------------------------------------------------------
    def log(self, line):
        self.seq += 1
        self.out.log.append(f"{self.seq} {line}")

    def violate(self, clause, detail):
        if clause not in self.violated:
            self.violated.add(clause)
            self.out.violations.append((clause, self.seq, detail))
            self.log(f"VIOLATION {clause} {detail}")

    # -- bodies ------------------------------------------------------------------
    def new_gate(self, aid):
        fut = self.loop.create_future()
        self.gates.append([fut, aid, False])
        self.log(f"GATE g{len(self.gates) - 1} for a{aid}")
        return fut

    def make_body(self, spec):
        """Returns the function handed to param for an async kind."""
        run = self
        aid, kind = spec['id'], spec['kind']
        n_gates, n_items, outcome, sleep = spec.get('gates', 1), spec.get('items', 1), spec.get('out', 'value'), spec.get('sleep', 0)
        Skip = self.param.parameterized.Skip

        def start(x):
            ev = _Eval(aid, x, sum(1 for e in run.evals if e.aid == aid))
            run.evals.append(ev)
            run.log(f"EVAL a{aid} x={x} n={ev.n}")
            return ev

        if kind in ('coro', 'bcoro'):
            async def body(x='-'):
                ev = start(x)
                try:
                    for _ in range(n_gates):
                        await run.new_gate(aid)
                    if sleep:
                        await asyncio.sleep(sleep)
                    if outcome == 'raise':
                        raise RuntimeError('injected awaitable failure')
                    if outcome == 'skip':
                        raise Skip()
                    if spec.get('self_plain') and not ev.n:
                        # the awaitable's own code overrides the parameter after its last suspension: its result is superseded
                        run.out.stats['probe.plain_assignment_by_the_awaitable_itself'] += 1
                        run.do_assign({'t': spec['t'], 'p': spec['p'], 'kind': 'plain', 'id': 9000 + aid})
                    if outcome == 'invalid' and run.cfg.get('typed'):
                        ev.ended = 'ok'
                        run.log(f"DONE a{aid} x={x} -> a value the parameter rejects")
                        run.out.stats['fault.result_rejected_by_parameter'] += 1
                        return 424242
                    val = f"a{aid}.x{x}.0"
                    ev.items.append(val)
                    ev.ended = 'ok'
                    run.log(f"DONE a{aid} x={x} -> {val}")
                    return val
                except asyncio.CancelledError:
                    ev.ended = 'cancelled'
                    run.log(f"CANCELLED a{aid} x={x}")
                    raise
                except BaseException as e:
                    ev.ended = 'raised'
                    run.log(f"RAISED a{aid} x={x} {type(e).__name__}")
                    raise
        elif kind in ('agen', 'bagen'):
            async def body(x='-'):
                ev = start(x)
                try:
                    for item in range(n_items):
                        for _ in range(n_gates):
                            await run.new_gate(aid)
                        if sleep and item == 0:
                            await asyncio.sleep(sleep)
                        if outcome == 'raise' and item == 0:
                            raise RuntimeError('injected awaitable failure')
                        if outcome == 'skip' and item == 0:
                            raise Skip()
                        val = f"a{aid}.x{x}.{item}"
                        ev.items.append(val)
                        run.log(f"YIELD a{aid} x={x} -> {val}")
                        yield val
                    if outcome == 'end_raise':
                        raise RuntimeError('injected failure after last item')
                    ev.ended = 'ok'
                    run.log(f"DONE a{aid} x={x}")
                except (asyncio.CancelledError, GeneratorExit):
                    ev.ended = 'cancelled'
                    run.log(f"CANCELLED a{aid} x={x}")
                    raise
                except BaseException as e:
                    ev.ended = 'raised'
                    run.log(f"RAISED a{aid} x={x} {type(e).__name__}")
                    raise
        else:  # sgen / bsgen: pulled through executor jobs, one next() per job
            def body(x='-'):
                ev = start(x)
                try:
                    for item in range(n_items):
                        if outcome == 'raise' and item == 0:
                            ev.ended = 'raised'
                            run.log(f"RAISED a{aid} x={x} RuntimeError")
                            raise RuntimeError('injected generator failure')
                        val = f"a{aid}.x{x}.{item}"
                        ev.items.append(val)
                        run.log(f"YIELD a{aid} x={x} -> {val}")
                        yield val
                    if outcome == 'end_raise':
                        ev.ended = 'raised'
                        run.log(f"RAISED a{aid} x={x} RuntimeError")
                        raise RuntimeError('injected failure after last item')
                    ev.ended = 'ok'
                    run.log(f"DONE a{aid} x={x}")
                except GeneratorExit:
                    ev.ended = 'cancelled'
                    raise
        body.__name__ = f"body_a{aid}"
        if kind in ('bcoro', 'bagen', 'bsgen'):
            return self.param.bind(body, self.src.param.x)
        return body

    # -- world construction ---------------------------------------------------------
    def build(self):
        param = self.param
        cfg = self.cfg
        Src = type('Src', (param.Parameterized,), {'x': param.Parameter(default=0)})
        ns = {}
        for pn in PNAMES[:cfg['n_params']]:
            if cfg.get('typed'):
                ns[pn] = param.String(default=None, allow_None=True, allow_refs=True)
            else:
                ns[pn] = param.Parameter(default=None, allow_refs=True)
        Tgt = type('Tgt', (param.Parameterized,), ns)
        self.src = Src()
        self.xcount = 0
        self.targets = []
        self.assigns = {}     # (t,p) -> list of spec (in execution order)
        self.after_assign = {}  # aid -> value right after the assignment executed
        self.applied = {}     # aid -> number of APPLY attributable
        self.first_specs = {}
        self.uctx = {}        # target -> stack of (restorer, pname, spec to restore or None)
        for t in range(cfg['n_targets']):
            if t == 0 and cfg.get('ctor_link'):
                # the link is made in the constructor: the task waits until the object is initialized
                spec = {'id': 0, 'kind': cfg.get('ctor_kind', 'coro'), 'gates': 1, 'items': 1, 'out': 'value', 'sleep': 0, 't': 0, 'p': 0}
                self.assigns[(0, 'a')] = [spec]
                self.log("ASSIGN a0 T0.a " + spec['kind'] + " (constructor)")
                self.out.stats['assign.constructor_link'] += 1
                self.targets.append(Tgt(a=self.make_body(spec)))
                self.after_assign[0] = None
            else:
                self.targets.append(Tgt())
        for t, obj in enumerate(self.targets):
            for pn in PNAMES[:cfg['n_params']]:
                obj.param.watch(self._make_cb(t, pn), [pn], onlychanged=False)

    def _make_cb(self, t, pn):
        def cb(event):
            self.on_apply(t, pn, event.new)
        return cb

    # -- oracle: attribution -------------------------------------------------------------
    def attributable(self, spec, value):
        kind = spec['kind']
        if kind == 'initial':
            return value is None
        if kind == 'plain':
            return value == f"v{spec['id']}"
        if kind == 'pref':
            return isinstance(value, int) and not isinstance(value, bool)
        if kind == 'bsync':
            return isinstance(value, str) and value.startswith(f"b{spec['id']}.")
        return isinstance(value, str) and value.startswith(f"a{spec['id']}.")

    def on_apply(self, t, pn, value):
        self.log(f"APPLY T{t}.{pn} {value!r}")
        hist = self.assigns.get((t, pn), [])
        if not hist:
            self.violate('C10.garbage', f"T{t}.{pn} received {value!r} before any assignment")
            return
        latest = hist[-1]
        if self.attributable(latest, value):
            self.applied[latest['id']] = self.applied.get(latest['id'], 0) + 1
            if latest.get('plain_on_first') and self.applied[latest['id']] == 1:
                # a watcher of the parameter overrides it while the generator's item is being applied
                self.out.stats['probe.plain_assignment_from_watcher_while_item_applied'] += 1
                self.do_assign({'t': t, 'p': PNAMES.index(pn), 'kind': 'plain', 'id': 9500 + latest['id']})
            return
        owner = None
        for spec in reversed(hist[:-1]):
            if self.attributable(spec, value):
                owner = spec
                break
        if owner is None:
            self.violate('C10.garbage', f"T{t}.{pn} received {value!r}, attributable to no assignment")
        elif latest['kind'] == 'plain':
            self.violate('C10.cancel_permanent',
                         f"T{t}.{pn}: {value!r} (assignment {owner['id']}, {owner['kind']}) applied after plain assignment {latest['id']}")
        else:
            self.violate('C10.stale_apply',
                         f"T{t}.{pn}: {value!r} (assignment {owner['id']}, {owner['kind']}) applied after newer assignment {latest['id']} ({latest['kind']})")

    # -- driver operations ------------------------------------------------------------------
    def do(self, op):
        what = op['do']
        if what == 'assign':
            self.do_assign(op)
        elif what == 'src':
            self.xcount += 1
            self.log(f"SRC x={self.xcount}")
            if any(not g[2] for g in self.gates) or self.loop.parked_jobs():
                self.out.stats['probe.src_change_while_pending'] += 1
            self.guard(lambda: setattr(self.src, 'x', self.xcount), 'src')
        elif what == 'uopen':
            self.do_uopen(op)
        elif what == 'uclose':
            self.do_uclose(op)
        elif what == 'rxset':
            self.rx_set()
        elif what == 'rxread':
            self.rx_read()

    def guard(self, fn, what):
        try:
            fn()
        except Exception as e:     # param raised into the driver: record, keep going
            self.log(f"EXC {what} {type(e).__name__}")
            self.out.stats['driver_exception'] += 1
            return True
        return False

    def pending_for(self, t, pn):
        """Is an awaitable of the latest assignments of (t,pn) still in flight?"""
        hist = self.assigns.get((t, pn), [])
        ids = {s['id'] for s in hist}
        for ev in self.evals:
            if ev.aid in ids and ev.ended is None:
                return True
        return False

    def do_assign(self, op):
        cfg = self.cfg
        t = op['t'] % cfg['n_targets']
        pn = PNAMES[op['p'] % cfg['n_params']]
        kind = op['kind']
        spec = dict(op)
        obj = self.targets[t]
        if self.pending_for(t, pn):
            self.out.stats['probe.assign_while_pending'] += 1
            if kind == 'plain':
                self.out.stats['probe.plain_while_pending'] += 1
        self.assigns.setdefault((t, pn), []).append(spec)
        self.log(f"ASSIGN a{spec['id']} T{t}.{pn} {kind}")
        self.out.stats[f"assign.{kind}"] += 1
        if kind == 'plain':
            val = f"v{spec['id']}"
        elif kind == 'pref':
            val = self.src.param.x
        elif kind == 'bsync':
            aid = spec['id']
            val = self.param.bind(lambda x: f"b{aid}.x{x}", self.src.param.x)
        else:
            val = self.make_body(spec)
        self.guard(lambda: setattr(obj, pn, val), 'assign')
        self.after_assign[spec['id']] = getattr(obj, pn)

    def do_uopen(self, op):
        """`with target.param.update(p=plain)` entered: a plain override that is undone (value and link) on exit"""
        cfg = self.cfg
        t = op['t'] % cfg['n_targets']
        pn = PNAMES[op['p'] % cfg['n_params']]
        st = self.uctx.setdefault(t, [])
        if len(st) >= 2:
            return
        hist = self.assigns.setdefault((t, pn), [])
        prev = hist[-1] if hist else None
        if self.pending_for(t, pn):
            self.out.stats['probe.update_ctx_while_pending'] += 1
        spec = {'id': op['id'], 'kind': 'plain', 't': t, 'p': op['p']}
        hist.append(spec)
        self.log(f"ASSIGN a{spec['id']} T{t}.{pn} plain (update context)")
        holder = {}

        def enter():
            holder['cm'] = self.targets[t].param.update(**{pn: f"v{spec['id']}"})
            holder['cm'].__enter__()
        self.guard(enter, 'uopen')
        self.after_assign[spec['id']] = getattr(self.targets[t], pn)
        if 'cm' in holder:
            st.append((holder['cm'], pn, prev))

    def do_uclose(self, op):
        cfg = self.cfg
        t = op['t'] % cfg['n_targets']
        st = self.uctx.get(t)
        if not st:
            return
        cm, pn, prev = st.pop()
        hist = self.assigns[(t, pn)]
        if prev is None:
            restored = {'id': -1, 'kind': 'initial', 't': t}
        else:
            restored = dict(prev)           # the previous value or link is assigned again
        hist.append(restored)
        self.log(f"ASSIGN a{restored['id']} T{t}.{pn} {restored['kind']} (restored by update context)")
        self.guard(lambda: cm.__exit__(None, None, None), 'uclose')
        self.after_assign[restored['id']] = getattr(self.targets[t], pn)
        self.out.stats['probe.update_ctx_restored'] += 1

    # -- rx mode -----------------------------------------------------------------------------
    def build_rx(self):
        param = self.param
        cfg = self.cfg
        run = self
        self.rx_x = 0
        self.rx_seen = []
        n_gates, n_items, stage = cfg['gates'], cfg['items'], cfg['stage']

        def start(x):
            ev = _Eval(0, x, len(run.evals))
            run.evals.append(ev)
            run.log(f"EVAL stage x={x}")
            return ev

        if stage == 'coro':
            async def stage_fn(x):
                ev = start(x)
                try:
                    for _ in range(n_gates):
                        await run.new_gate(0)
                    val = f"r.x{x}.0"
                    ev.items.append(val)
                    ev.ended = 'ok'
                    run.log(f"DONE stage x={x} -> {val}")
                    return val
                except asyncio.CancelledError:
                    ev.ended = 'cancelled'
                    run.log(f"CANCELLED stage x={x}")
                    raise
                except BaseException as e:
                    ev.ended = 'raised'
                    run.log(f"RAISED stage x={x} {type(e).__name__}")
                    raise
        elif stage == 'agen':
            async def stage_fn(x):
                ev = start(x)
                try:
                    for item in range(n_items):
                        for _ in range(n_gates):
                            await run.new_gate(0)
                        val = f"r.x{x}.{item}"
                        ev.items.append(val)
                        run.log(f"YIELD stage x={x} -> {val}")
                        yield val
                    ev.ended = 'ok'
                    run.log(f"DONE stage x={x}")
                except (asyncio.CancelledError, GeneratorExit):
                    ev.ended = 'cancelled'
                    run.log(f"CANCELLED stage x={x}")
                    raise
                except BaseException as e:
                    ev.ended = 'raised'
                    run.log(f"RAISED stage x={x} {type(e).__name__}")
                    raise
        else:
            def stage_fn(x):
                ev = start(x)
                try:
                    for item in range(n_items):
                        val = f"r.x{x}.{item}"
                        ev.items.append(val)
                        run.log(f"YIELD stage x={x} -> {val}")
                        yield val
                    ev.ended = 'ok'
                    run.log(f"DONE stage x={x}")
                except GeneratorExit:
                    ev.ended = 'cancelled'
                    raise

        if cfg['root'] == 'param':
            P = type('RxSrc', (param.Parameterized,), {'x': param.Parameter(default=0)})
            self.rx_obj = P()
            root = self.rx_obj.param.x.rx()
        else:
            self.rx_obj = None
            root = param.rx(0)
        self.rx_root = root
        expr = root.rx.pipe(stage_fn)
        if cfg['post']:
            expr = expr.rx.pipe(lambda s: s if s is None or not isinstance(s, str) else s + '!')
        self.rx_expr = expr

        def cb(v):
            run.log(f"WATCH {v!r}")
            run.rx_seen.append((v, run.rx_x))
            run.check_rx_value('watch', v)
        expr.rx.watch(cb)
        self.rx_read()        # rx pipelines are lazy: the first read starts the first evaluation

    def check_rx_value(self, where, v):
        """A value belonging to input generation g must not be delivered once a newer input is current."""
        if not isinstance(v, str) or not v.startswith('r.x'):
            return
        try:
            g = int(v.split('.')[1][1:])
        except ValueError:
            self.violate('C10.garbage', f"rx {where} produced {v!r}")
            return
        if g != self.rx_x:
            # Don't-care (DESIGN §5 C10): the statement demands the *final* value of an expression; an
            # intermediate delivery of the previous input's result is counted, not flagged.
            self.out.stats['probe.rx_intermediate_stale_delivery'] += 1

    def rx_set(self):
        self.rx_x += 1
        self.log(f"RXSET x={self.rx_x}")
        if any(ev.ended is None for ev in self.evals):
            self.out.stats['probe.rx_update_while_pending'] += 1
        if self.rx_obj is not None:
            self.guard(lambda: setattr(self.rx_obj, 'x', self.rx_x), 'rxset')
        else:
            def f():
                self.rx_root.rx.value = self.rx_x
            self.guard(f, 'rxset')

    def rx_read(self):
        try:
            v = self.rx_expr.rx.value
        except Exception as e:
            self.log(f"READ raised {type(e).__name__}")
            return None
        self.log(f"READ {v!r}")
        return v

    # -- main loop ---------------------------------------------------------------------------------
    def abstract_state(self):
        pend = sum(1 for ev in self.evals if ev.ended is None)
        kinds = tuple(sorted((k[1], v[-1]['kind']) for k, v in getattr(self, 'assigns', {}).items()))
        return f"{pend}|{kinds}|{min(self.loop.ready_count(), 4)}|{len(self.loop.parked_jobs())}"

    def execute_noloop(self):
        """No event loop is running: every assignment of an awaitable is complete when the assignment returns, so after each
        operation every parameter holds what its most recent assignment produces for the current source value."""
        self.loop.uninstall()
        self.build()
        model = {}          # (t, pn) -> (spec, value it holds)
        for op in self.case['ops']:
            if self.out.violations:
                break
            if op['do'] == 'src':
                self.xcount += 1
                self.log(f"SRC x={self.xcount}")
                self.guard(lambda: setattr(self.src, 'x', self.xcount), 'src')
            else:
                spec = dict(op)
                t = op['t'] % self.cfg['n_targets']
                pn = PNAMES[op['p'] % self.cfg['n_params']]
                self.assigns.setdefault((t, pn), []).append(spec)
                kind = op['kind']
                self.out.stats[f"assign.{kind}"] += 1
                self.out.stats['probe.assignment_without_running_loop'] += 1
                if kind == 'plain':
                    val = f"v{spec['id']}"
                elif kind == 'pref':
                    val = self.src.param.x
                elif kind == 'bsync':
                    aid = spec['id']
                    val = self.param.bind(lambda x, aid=aid: f"b{aid}.x{x}", self.src.param.x)
                else:
                    val = self.make_body(spec)
                self.log(f"ASSIGN a{spec['id']} T{t}.{pn} {kind}")
                raised = self.guard(lambda: setattr(self.targets[t], pn, val), 'assign')
                prev = model.get((t, pn), (None, None))[1]
                if raised and spec.get('out') in ('raise', 'skip') and kind not in ('plain', 'pref', 'bsync'):
                    # the awaitable failed (or raised Skip) inside the assignment, which therefore raised: whatever the parameter
                    # followed before, it still follows (a later change of the source shows)
                    self.out.stats['fault.awaitable_failed_inside_the_assignment'] += 1
                    self.assigns[(t, pn)].remove(spec)      # (the assignment was rejected: it is not "the most recent assignment")
                else:
                    model[(t, pn)] = (spec, prev)
            x = self.src.x
            for (t, pn), (spec, prev) in sorted(model.items()):
                kind, aid, out = spec['kind'], spec['id'], spec.get('out', 'value')
                if kind == 'plain':
                    exp = f"v{aid}"
                elif kind == 'pref':
                    exp = x
                elif kind == 'bsync':
                    exp = f"b{aid}.x{x}"
                elif out != 'value':
                    exp = prev                      # the awaitable failed or skipped: the previous value stays
                else:
                    xx = x if kind.startswith('b') else '-'
                    exp = f"a{aid}.x{xx}.{spec.get('items', 1) - 1}"
                model[(t, pn)] = (spec, exp)
                got = getattr(self.targets[t], pn)
                if got != exp:
                    self.violate('C10.final', f"no running event loop: after {op.get('do')} {op.get('kind', '')} T{t}.{pn} holds {got!r}; its most recent "
                                              f"assignment a{aid} ({kind}) produces {exp!r} (source x={x})")
        self.out.states = ('noloop',)
        self.out.sig = 'noloop:' + ' '.join(o.get('kind', 'src') for o in self.case['ops'])

    def execute(self):
        cfg = self.cfg
        if cfg['mode'] == 'noloop':
            return self.execute_noloop()
        rx = cfg['mode'] == 'rx'
        if rx:
            self.assigns = {}
            self.build_rx()
        else:
            self.build()
        loop = self.loop
        done_order = []
        for op in self.case['ops']:
            kind = op['op']
            if kind == 'run':
                loop.step()
            elif kind == 'do':
                loop.call_soon(self.do, op)
            elif kind == 'resolve':
                unresolved = [g for g in self.gates if not g[2]]
                if unresolved:
                    g = unresolved[op.get('k', 0) % len(unresolved)]
                    if g is not unresolved[0]:
                        self.out.stats['probe.out_of_order_completion'] += 1
                    self.resolve_gate(g, op.get('fail', False))
            elif kind == 'job':
                parked = loop.parked_jobs()
                if parked:
                    j = parked[op.get('k', 0) % len(parked)]
                    if j != parked[0]:
                        self.out.stats['probe.out_of_order_completion'] += 1
                    self.out.stats['fault.job_completed'] += 1
                    loop.complete_job(j)
            self.states.add(self.abstract_state())
            if self.out.violations:
                break
        # ---- faults stop here: resolve everything still open, in creation order, and drain
        if not self.out.violations:
            if rx:
                loop.call_soon(self.rx_read)     # a read after the last update starts the evaluation for the current input
            # progress bound once faults have stopped: proportional to the work the history set going (every evaluation that was
            # started runs to its end or to its cancellation point; a fixed bound was exceeded by a history of 13 source changes
            # over four bound generators - 1 run in 10^6 - that did finish), so that only a loop that never quiesces exceeds it
            budget = cap = 400 + 20 * len(self.out.log)
            while budget > 0:
                budget -= 1
                progressed = loop.step()
                if progressed:
                    continue
                unresolved = [g for g in self.gates if not g[2]]
                parked = loop.parked_jobs()
                if unresolved:
                    self.resolve_gate(unresolved[0], False)
                elif parked:
                    loop.complete_job(parked[0])
                else:
                    break
            self.log("QUIESCENT" if budget > 0 else "STEP-CAP")
            if budget <= 0:
                self.violate('C10.liveness', f'loop still busy {cap} steps after the last operation and fault')
            else:
                pend = [t for t in asyncio.all_tasks(loop) if not t.done()]
                if pend:
                    self.violate('C10.liveness', f"{len(pend)} task(s) still pending at quiescence")
            if not self.out.violations:
                if rx:
                    self.final_rx()
                else:
                    self.final_ref()
        self.out.sim_time = loop.time()
        self.out.states = tuple(self.states)
        st = self.out.stats
        nontrivial = (st['probe.assign_while_pending'] or st['probe.out_of_order_completion'] or
                      st['probe.src_change_while_pending'] or st['probe.rx_update_while_pending'])
        if nontrivial:
            toks = []
            for line in self.out.log:
                parts = line.split(' ')
                if parts[1] in ('ASSIGN',):
                    toks.append('A' + parts[-1])
                elif parts[1] in ('APPLY', 'DONE', 'YIELD', 'CANCELLED', 'RAISED', 'SRC', 'RXSET', 'WATCH', 'READ', 'EVAL'):
                    toks.append(parts[1][:2] + (parts[2] if parts[1] in ('DONE', 'CANCELLED', 'EVAL') else ''))
            self.out.sig = cfg['mode'] + ':' + ' '.join(toks)
        if loop.time() > 0:
            st['fault.virtual_delay'] += 1

    def resolve_gate(self, g, fail):
        g[2] = True
        fut = g[0]
        idx = self.gates.index(g)
        if fail:
            self.out.stats['fault.gate_failed'] += 1
            self.log(f"RESOLVE g{idx} FAIL")
            self.loop.call_soon(lambda: (not fut.done()) and fut.set_exception(RuntimeError('injected gate failure')))
        else:
            self.out.stats['fault.gate_resolved'] += 1
            self.log(f"RESOLVE g{idx}")
            self.loop.call_soon(lambda: (not fut.done()) and fut.set_result(None))

    # -- final-state oracles -------------------------------------------------------------------------
    def final_ref(self):
        curx = self.src.x
        for (t, pn), hist in sorted(self.assigns.items()):
            latest = hist[-1]
            val = getattr(self.targets[t], pn)
            aid, kind = latest['id'], latest['kind']
            self.log(f"FINAL T{t}.{pn} = {val!r} latest=a{aid}:{kind} x={curx}")
            if kind == 'initial':
                if val is not None:
                    self.violate('C10.final', f"T{t}.{pn} holds {val!r}, the update context restored the initial value None")
            elif kind == 'plain':
                if val != f"v{aid}":
                    self.violate('C10.final', f"T{t}.{pn} holds {val!r}, latest assignment is plain v{aid}")
            elif kind == 'pref':
                if val != curx:
                    self.violate('C10.final', f"T{t}.{pn} holds {val!r}, latest assignment links source.x = {curx}")
            elif kind == 'bsync':
                if val != f"b{aid}.x{curx}":
                    self.violate('C10.final', f"T{t}.{pn} holds {val!r}, latest assignment is sync bind expecting b{aid}.x{curx}")
            else:
                dep = kind.startswith('b')
                evs = [e for e in self.evals if e.aid == aid and (not dep or e.x == curx)]
                legit = (self.attributable(latest, val) or val == self.after_assign.get(aid) or
                         (val is None and self.after_assign.get(aid) is None))
                if not evs:
                    self.violate('C10.final', f"T{t}.{pn}: latest assignment a{aid} ({kind}) was never evaluated"
                                 + (f" for the current source value x={curx}" if dep else ''))
                    continue
                e = evs[-1]
                if kind in ('sgen', 'bsgen'):
                    # the creation order of plain sync generators is not observable (their bodies start inside
                    # executor jobs, in scheduler-chosen order) and all their evaluations are identical:
                    # any evaluation that ran to its end qualifies
                    fin = [x for x in evs if x.ended in ('ok', 'raised')]
                    if fin:
                        e = max(fin, key=lambda x: len(x.items))
                if e.ended in (None, 'cancelled'):
                    self.violate('C10.final', f"T{t}.{pn}: the latest evaluation of the latest assignment a{aid} ({kind}, x={e.x}) "
                                 f"{'was cancelled' if e.ended else 'never finished'}; parameter holds {val!r}")
                elif e.items:
                    if val != e.items[-1]:
                        clause = 'C10.final' if (not self.attributable(latest, val)) else 'C10.final_eval'
                        self.violate(clause, f"T{t}.{pn} holds {val!r}; latest assignment a{aid} ({kind}) last produced {e.items[-1]!r}")
                elif not legit:
                    self.violate('C10.final', f"T{t}.{pn} holds {val!r}, not attributable to latest assignment a{aid} ({kind}) which produced nothing")

    def final_rx(self):
        cfg = self.cfg
        v = self.rx_read()
        cur = self.rx_x
        evs = [e for e in self.evals if e.x == cur]
        self.log(f"FINAL rx = {v!r} x={cur}")
        if not evs:
            self.violate('C10.rx_final', f"the stage was never evaluated for the current input x={cur}; expression holds {v!r}")
            return
        e = evs[-1]
        if e.ended in (None, 'cancelled'):
            self.violate('C10.rx_final', f"evaluation for the current input x={cur} {'was cancelled' if e.ended else 'never finished'}; expression holds {v!r}")
            return
        if e.items:
            exp = e.items[-1] + ('!' if cfg['post'] else '')
            if v != exp:
                self.violate('C10.rx_final', f"expression holds {v!r}, the current input x={cur} last produced {exp!r}")
            seen = [s for s, _ in self.rx_seen]
            if exp not in seen:
                self.violate('C10.rx_watch', f"watch callback never received the final value {exp!r} (saw {seen[-3:]})")


register(AsyncWorld())
