"""Reference dispatcher for C03/C04 — written from the property statements, imports nothing from param.

An object has values, an ordered watcher table, a deferring flag and a FIFO of deferred (watcher, event)
pairs.  Immediate dispatch walks the watchers of the assigned parameter sorted by (precedence, registration);
a non-queued callback's own assignments recurse before the next watcher; while a queued callback runs, the
object defers.  Deferred events are delivered once per watcher when the outermost deferring scope ends:
one event per watched parameter that had a qualifying event for that watcher, carrying the final value.

Three-valued: `eq3` returns None where the statement leaves changes-only filtering open; `ambiguous` is set
when the program enters a zone the statements do not order (see DESIGN §5 C03 don't-care list).
"""
import datetime as dt
import numbers

LISTED_SCALARS = (numbers.Number, str, bytes, type(None), dt.date, dt.datetime)


def listed(v):
    if isinstance(v, LISTED_SCALARS):
        return True
    if isinstance(v, (list, tuple, set, frozenset)):
        return all(listed(x) for x in v)
    if isinstance(v, dict):
        return all(listed(k) and listed(x) for k, x in v.items())
    return False


def _elementwise(a, b):
    """Strict element-by-element equality (no identity shortcut), for listed values only."""
    if isinstance(a, (list, tuple)):
        return type(a) is type(b) and len(a) == len(b) and all(_elementwise(x, y) for x, y in zip(a, b))
    if isinstance(a, (set, frozenset)):
        return type(a) is type(b) and a == b
    if isinstance(a, dict):
        import collections
        if isinstance(a, collections.OrderedDict) and isinstance(b, collections.OrderedDict) and list(a) != list(b):
            return False        # the same items in a different order are a different OrderedDict
        return (type(a) is type(b) and len(a) == len(b) and
                all(k in b and _elementwise(v, b[k]) for k, v in a.items()))
    if isinstance(b, (list, tuple, dict, set, frozenset)):
        return False
    return bool(a == b)


def eq3(a, b):
    """True: must be treated as unchanged; False: genuine change (must fire); None: unspecified."""
    if listed(a) and listed(b):
        try:
            py = bool(a == b)
            strict = _elementwise(a, b)
        except Exception:
            return None
        if isinstance(a, (list, tuple, dict, set, frozenset)) or isinstance(b, (list, tuple, dict, set, frozenset)):
            if type(a) is not type(b):
                return False
            if py != strict:
                return None       # e.g. containers sharing one NaN object: equal by identity shortcut only
        return py
    try:
        same = (a is b) or bool(a == b)
    except Exception:
        return None
    return None if same else False


class ModelReject(Exception):
    """the model's counterpart of a value rejected by validation"""


class MEvent:
    __slots__ = ('what', 'name', 'old', 'new', 'triggered', 'old_dc', 'type_dc', 'new_alt', 'has_alt', 'tdef', 'new_dc')

    def __init__(self, what, name, old, new, triggered=False):
        self.what, self.name, self.old, self.new, self.triggered = what, name, old, new, triggered
        self.old_dc = False
        self.type_dc = False
        self.new_alt = None
        self.has_alt = False
        self.tdef = False         # triggered while the object was deferring
        self.new_dc = False


class MWatcher:
    __slots__ = ('wid', 'obj', 'params', 'what', 'onlychanged', 'queued', 'precedence', 'mode', 'script')

    def __init__(self, wid, obj, params, what, onlychanged, queued, precedence, mode, script):
        self.wid, self.obj, self.params, self.what = wid, obj, tuple(params), what
        self.onlychanged, self.queued, self.precedence, self.mode, self.script = onlychanged, queued, precedence, mode, script


class _Inheriting(dict):
    """values of a class that inherits its Parameters: a name never assigned on the class itself reads the base's value"""

    def __init__(self, base):
        dict.__init__(self)
        self.base = base

    def __getitem__(self, k):
        return dict.__getitem__(self, k) if dict.__contains__(self, k) else self.base[k]

    def __iter__(self):
        return iter(self.base)


class MObj:
    def __init__(self, oid, values, event_params=()):
        self.oid = oid
        self.values = dict(values)
        self.slots = {}                 # (param, slot) -> value
        self.watchers = {}              # (param, what) -> [MWatcher]
        self.batch = False
        self.trigger = False
        self.trig_deferred = False
        self.trig_outer = 0             # callbacks in progress that were called on behalf of param.trigger
        self.queue = []                 # [(watcher, MEvent, qualifies)]
        self.event_params = set(event_params)
        self.ctx = []                   # open contexts (LIFO)
        self.discarded = set()          # parameters assigned inside a discard_events scope since the last flush


class DispatchModel:
    """`host.on_enter(w, events, optional_names)` / `host.on_exit(w)` are called for every delivery;
    on_enter runs the watcher's script (which calls back into this engine)."""

    def __init__(self, host):
        self.host = host
        self.objs = {}
        self.shared = {}                # oid -> set of the classes sharing one table of class-level watchers
        self.ambiguous = None           # reason string once the program leaves the specified zone
        self.depth = 0                  # callback nesting depth
        self.inflight = []              # stack of sets of (oid, name) being delivered
        self.started = []               # parallel stack: ids of the watchers already called (or skipped) by that delivery
        self.event_hold = set()         # objects inside an update() naming an Event parameter
        self.exec_id = 0                # id of the callback execution in progress (0 = top level)
        self.exec_counter = 0
        self.nested_in_trigger = 0      # assignments made by callbacks while a trigger of the same object is dispatching

    # -- registration -----------------------------------------------------------------
    def add_obj(self, oid, values, event_params=()):
        self.objs[oid] = MObj(oid, values, event_params)

    def share_watchers(self, oid, src):
        """a class that inherits the Parameters of its base has the base's table of class-level watchers: whatever is
        registered on (or removed from) either class, before or after the inheriting class gets Parameter copies of its
        own by a class-level assignment, is heard on both"""
        self.objs[oid].watchers = self.objs[src].watchers
        # ... and until a name is assigned on the inheriting class itself it reads the value of its base
        self.objs[oid].values = _Inheriting(self.objs[src].values)
        group = self.shared.setdefault(src, {src})
        group.add(oid)
        self.shared[oid] = group

    def inherit_watchers(self, oid, src, name):
        """(nothing to do: see share_watchers)"""

    def watch(self, w):
        o = self.objs[w.obj]
        group = self.shared.get(w.obj, (w.obj,))
        if self.depth and any((g, p) in s for s in self.inflight for p in w.params for g in group):
            self.ambiguous = self.ambiguous or 'watcher registered for a parameter whose event is in flight'
        if self.depth and any(t[1].name in w.params for g in group for t in self.objs[g].queue):
            self.ambiguous = self.ambiguous or 'watcher registered for a parameter with a deferred event'
        for p in w.params:
            o.watchers.setdefault((p, w.what), []).append(w)

    def unwatch(self, w):
        o = self.objs[w.obj]
        group = self.shared.get(w.obj, (w.obj,))
        # a watcher that was already called for the event in flight (typically one removing itself) leaves nothing open:
        # every other watcher is still owed its call
        if self.depth and any((g, p) in s and id(w) not in st for s, st in zip(self.inflight, self.started) for p in w.params for g in group):
            self.ambiguous = self.ambiguous or 'watcher removed while an event for its parameter is in flight'
        if any(t[0] is w or (t[0].wid == w.wid and t[0].obj == w.obj) for g in group for t in self.objs[g].queue):
            self.ambiguous = self.ambiguous or 'watcher removed while it holds a deferred event'
        for p in w.params:
            lst = o.watchers.get((p, w.what), [])
            # removal is by equality: of two identical registrations of one callback the first one goes
            for i, x in enumerate(lst):
                if x is w or (x.wid == w.wid and x.obj == w.obj):
                    del lst[i]
                    break

    # -- assignment --------------------------------------------------------------------
    def set(self, oid, name, value):
        o = self.objs[oid]
        old = o.values[name]
        o.values[name] = value
        ev = MEvent('value', name, old, value, o.trigger)
        ev.tdef = o.trigger and o.trig_deferred
        if o.trigger and self.depth and o.watchers.get((name, 'value')):
            # known finding: an assignment made by a callback while param.trigger is dispatching counts as triggered itself
            # (changes-only filtering bypassed, type 'triggered'); the model follows the library from here on
            self.nested_in_trigger += 1
        self._dispatch(o, ev, sort=True)
        if name in o.event_params and oid not in self.event_hold:
            o.values[name] = False       # Event parameters reset themselves, silently

    def slotset(self, oid, name, slot, value):
        o = self.objs[oid]
        old = o.slots.get((name, slot))
        o.slots[(name, slot)] = value
        self._dispatch(o, MEvent(slot, name, old, value, o.trigger), sort=False)

    def _dispatch(self, o, ev, sort):
        ws = list(o.watchers.get((ev.name, ev.what), []))
        if sort:
            ws = sorted(ws, key=lambda w: w.precedence)
        self.inflight.append({(o.oid, ev.name)})
        self.started.append(set())
        try:
            for w in ws:
                self.started[-1].add(id(w))
                q = True
                if not ev.triggered and w.onlychanged:
                    e3 = eq3(ev.old, ev.new)
                    if e3 is True:
                        if o.batch:
                            # remember the non-qualifying event: the final value is still what must be reported
                            o.queue.append((w, ev, False, self.exec_id))
                        continue
                    if e3 is None:
                        self.ambiguous = self.ambiguous or 'changes-only filtering of equal values of an unlisted type'
                if o.batch:
                    o.queue.append((w, ev, q, self.exec_id))
                else:
                    self._execute(o, w, [ev], set())
        finally:
            self.inflight.pop()
            self.started.pop()
        if not o.batch:
            self.flush(o)

    def _execute(self, o, w, events, optional):
        saved = o.batch
        o.batch = bool(w.queued) or o.batch
        self.depth += 1
        saved_id = self.exec_id
        self.exec_counter += 1
        self.exec_id = self.exec_counter
        try:
            self.cur_src = o.oid        # (a class-level watcher may hear of an assignment on another class of its family)
            self.host.on_enter(w, events, optional)
        finally:
            self.exec_id = saved_id
            self.depth -= 1
            o.batch = saved
            self.host.on_exit(w)

    def flush(self, o):
        if self.depth and any(t[3] != self.exec_id for t in o.queue):
            # a callback's nested operation would deliver events deferred by somebody else: the statements only
            # say these are delivered before the outermost operation returns, not when
            self.ambiguous = self.ambiguous or 'deferred events of a queued callback flushed by a nested assignment'
        disc = set(o.discarded)
        if not o.batch:
            o.discarded.clear()
        while o.queue:
            queue, o.queue = o.queue, []
            order, per_w = [], {}
            last = {}        # (name, what) -> last MEvent of the whole batch
            counts, seen_ev = {}, set()
            for w, ev, q, _ in queue:
                last[(ev.name, ev.what)] = ev
                if id(ev) not in seen_ev:
                    seen_ev.add(id(ev))
                    counts[(ev.name, ev.what)] = counts.get((ev.name, ev.what), 0) + 1
                if q:
                    if id(w) not in per_w:
                        per_w[id(w)] = (w, [])
                        order.append(w)
                    if ev.name not in per_w[id(w)][1]:
                        per_w[id(w)][1].append(ev.name)
            assigned = {k[0] for k in last}
            names_inflight = {(o.oid, n) for n in assigned}
            self.inflight.append(names_inflight)
            self.started.append(set())
            try:
                for w in sorted(order, key=lambda w: w.precedence):
                    self.started[-1].add(id(w))
                    qualifying = per_w[id(w)][1]
                    evs = []
                    for n in w.params:               # events are reported in the watcher's parameter order
                        if n in qualifying:
                            src = last[(n, w.what)]
                            ev = MEvent(src.what, src.name, src.old, src.new, src.triggered)
                            ev.tdef = src.tdef
                            ev.old_dc = counts[(n, w.what)] > 1 or n in disc
                            ev.new_dc = n in disc
                            qevs = [e for ww, e, q, _ in queue if ww is w and e.name == n and q]
                            # a mixture of triggered and assigned events for one parameter: the reported type is open
                            ev.type_dc = len({e.triggered for e in qevs} | {src.triggered}) > 1 or src.type_dc or any(e.type_dc for e in qevs)
                            # the last assignment did not qualify for this watcher (equal value): reporting the last
                            # qualifying object instead of the equal final one is acceptable
                            if qevs[-1] is not src and eq3(qevs[-1].new, src.new) is True:
                                ev.new_alt = qevs[-1].new
                                ev.has_alt = True
                            evs.append(ev)
                    optional = {n for n in w.params if (n, w.what) in last and n not in qualifying}
                    self._execute(o, w, evs, optional)
            finally:
                self.inflight.pop()
                self.started.pop()

    # -- batching scopes ---------------------------------------------------------------------
    def update(self, oid, items, fail_at=None):
        """fail_at=k: the k-th key is rejected - the keys before it are applied and announced no later than the raise"""
        o = self.objs[oid]
        saved = o.batch
        o.batch = True
        hold = [k for k, _ in items if k in o.event_params] if oid not in self.event_hold else []
        if hold:
            self.event_hold.add(oid)
        failed = fail_at is not None
        try:
            for i, (k, v) in enumerate(items):
                if failed and i == fail_at:
                    break
                self.set(oid, k, v)
        finally:
            o.batch = saved
        if not saved:
            self.flush(o)
        if failed:
            if hold:
                self.event_hold.discard(oid)
                for k in hold:
                    o.values[k] = False
            raise ModelReject()
        if hold:
            self.event_hold.discard(oid)
            for k in hold:
                o.values[k] = False

    def trigger(self, oid, names):
        o = self.objs[oid]
        saved, saved_d = o.trigger, o.trig_deferred
        o.trigger = True
        o.trig_deferred = o.batch
        try:
            items, seen = [], set()
            for n in names:
                if n not in seen:
                    seen.add(n)
                    items.append((n, True if n in o.event_params else o.values[n]))
            self.update(oid, items)
        finally:
            o.trigger, o.trig_deferred = saved, saved_d

    def ctx_open(self, oid, kind):
        o = self.objs[oid]
        if kind == 'batch':
            o.ctx.append(('batch', o.batch, None))
            o.batch = True
        elif kind == 'discard':
            o.ctx.append(('discard', o.batch, list(o.queue)))
            o.batch = True

    def ctx_close(self, oid):
        o = self.objs[oid]
        if not o.ctx:
            return False
        kind, saved, q = o.ctx.pop()
        o.batch = saved
        if kind == 'batch':
            if not saved:
                self.flush(o)
        else:
            # values set inside persist, their events are dropped: what a surviving earlier event for the same
            # parameter reports as its new value is then open (the statement's "final value" no longer exists
            # as an event)
            for t in o.queue[len(q):]:
                o.discarded.add(t[1].name)
            o.queue = q
        return True
