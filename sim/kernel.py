"""Simulation kernel shared by all worlds.

seed -> (cfg, ops) -> execution -> oracle -> shrink -> replay -> evidence

One integer decides everything: the PRNG of run `i` of property `P` under
VERIF_SEED `s` is Random(sha256(f"{P}|{s}|{i}")).  Worlds generate a JSON-able
*case* ({"world","prop","cfg","ops"}); executing a case is a pure function of the
case and the code under /repo.  No real clock, address or hash order feeds a
decision or a log line.
"""
import hashlib
import json
import os
import random
import sys
import time
import traceback
import multiprocessing as mp
from multiprocessing.connection import wait as mp_wait
from collections import Counter

VERIF_DIR = os.path.dirname(os.path.dirname(os.path.abspath(__file__)))
HARNESS_VERSION = 1


# ----------------------------------------------------------------------------- basics

class Violation(Exception):
    """An oracle failure.  `clause` is the stable violation class."""

    def __init__(self, clause, detail, step=None):
        super().__init__(f"{clause}: {detail}")
        self.clause = clause
        self.detail = detail
        self.step = step

    def as_tuple(self):
        return (self.clause, self.step, self.detail)


class Outcome:
    __slots__ = ('violations', 'log', 'stats', 'sig', 'sim_time', 'states', 'known')

    def __init__(self):
        self.violations = []      # [(clause, step, detail)]
        self.log = []             # canonical event log lines
        self.stats = Counter()    # fault kinds fired, probes hit
        self.sig = None           # signature string if the run is non-trivial else None
        self.sim_time = 0.0       # simulated time covered (world-defined unit)
        self.states = ()          # abstract states visited (hashable), for the reach measure
        self.known = []           # [(clause, detail)] deviations tolerated because known_findings.json lists the clause

    def digest(self):
        h = hashlib.sha256()
        for line in self.log:
            h.update(line.encode('utf-8', 'backslashreplace'))
            h.update(b'\n')
        for v in self.violations:
            h.update(repr(v[0]).encode())
        return h.hexdigest()[:24]

    def clauses(self, prop=None):
        return [v[0] for v in self.violations if prop is None or v[0].startswith(prop + '.')]


def run_rng(prop, seed, index):
    d = hashlib.sha256(f"{prop}|{seed}|{index}".encode()).digest()
    return random.Random(int.from_bytes(d[:8], 'big'))


def h64(s):
    return int.from_bytes(hashlib.blake2b(s.encode('utf-8', 'backslashreplace'), digest_size=8).digest(), 'big')


def weighted(rng, table):
    """table: list of (item, weight) -> item, using rng only."""
    tot = 0
    for _, w in table:
        tot += w
    x = rng.random() * tot
    for item, w in table:
        x -= w
        if x < 0:
            return item
    return table[-1][0]


def source_digest(repo):
    h = hashlib.sha256()
    for pkg in ('param', 'numbergen'):
        d = os.path.join(repo, pkg)
        for fn in sorted(os.listdir(d)):
            if fn.endswith('.py'):
                with open(os.path.join(d, fn), 'rb') as f:
                    h.update(fn.encode())
                    h.update(f.read())
    return h.hexdigest()[:16]


def reset_param_globals():
    """Make a run independent of what the worker process did before."""
    import param
    from param import parameterized as pz
    pz.object_count = 0
    pz.warning_count = 0
    pz.warnings_as_exceptions = False
    param.random_seed = 42
    from param.parameters import Dynamic
    Dynamic.time_dependent = False
    from param import _utils
    _utils._running_tasks.clear()


_QUIET = False


def quiet_param_logging():
    global _QUIET
    if _QUIET:
        return
    _QUIET = True
    import logging
    import warnings
    warnings.simplefilter('ignore')
    logging.getLogger('param').setLevel(logging.CRITICAL + 10)
    logging.getLogger('asyncio').setLevel(logging.CRITICAL + 10)
    logging.disable(logging.CRITICAL)


# ----------------------------------------------------------------------------- worlds registry

_WORLDS = {}


def register(world):
    for p in world.props:
        _WORLDS[p] = world
    return world


def world_for(prop):
    if not _WORLDS:
        load_worlds()
    return _WORLDS[prop]


def load_worlds():
    import importlib
    d = os.path.join(VERIF_DIR, 'sim', 'worlds')
    for fn in sorted(os.listdir(d)):
        if fn.endswith('_world.py'):
            importlib.import_module('sim.worlds.' + fn[:-3])


class RunTimeout(BaseException):
    """raised by the per-run wall-clock alarm; BaseException so that no `except Exception` in a world swallows it"""


RUN_TIMEOUT_S = float(os.environ.get('VERIF_RUN_TIMEOUT_S', '30'))


def _on_alarm(signum, frame):
    raise RunTimeout()


def execute(case):
    """Run one case on the real code.  Harness exceptions propagate.

    A run normally takes milliseconds.  If the library does not return within RUN_TIMEOUT_S seconds of wall time (a
    runaway cascade or an endless loop on a broken tree) the run is reported as a `<prop>.hang` violation instead of
    stalling the batch; the bound is three to four orders of magnitude above a normal run."""
    import signal
    w = world_for(case['prop'])
    quiet_param_logging()
    reset_param_globals()
    use_alarm = RUN_TIMEOUT_S > 0 and hasattr(signal, 'setitimer')
    if use_alarm:
        old = signal.signal(signal.SIGALRM, _on_alarm)
        signal.setitimer(signal.ITIMER_REAL, RUN_TIMEOUT_S)
    try:
        return w.run(case)
    except RunTimeout:
        out = Outcome()
        out.log.append('RUN-TIMEOUT')
        out.violations.append((f"{case['prop']}.hang", None,
                               f"the library did not return within {RUN_TIMEOUT_S:.0f} s of wall time in this run (normal runs take milliseconds)"))
        return out
    finally:
        if use_alarm:
            signal.setitimer(signal.ITIMER_REAL, 0)
            signal.signal(signal.SIGALRM, old)


def generate(prop, seed, index, tier, avoid=()):
    w = world_for(prop)
    rng = run_rng(prop, seed, index)
    case = w.gen(rng, prop, tier, frozenset(avoid))
    case['prop'] = prop
    case['world'] = w.name
    return case


# ----------------------------------------------------------------------------- shrinking

def _fails(case, clause):
    try:
        out = execute(case)
    except Exception:
        return False
    return clause in [v[0] for v in out.violations]


def shrink(case, clause, budget_s=20.0, max_exec=3000):
    """ddmin over case['ops'] then world-specific simplifications, while `clause` fires."""
    w = world_for(case['prop'])
    t0 = time.time()
    n_exec = [0]

    def ok(c):
        if n_exec[0] >= max_exec or time.time() - t0 > budget_s:
            return False
        n_exec[0] += 1
        return _fails(c, clause)

    def with_ops(c, ops):
        d = dict(c)
        d['ops'] = ops
        return d

    cur = case
    # truncate after the violating step first (cheap, big win)
    ops = list(cur['ops'])
    n = 2
    while len(ops) >= 2:
        chunk = max(1, len(ops) // n)
        reduced = False
        i = 0
        while i < len(ops):
            cand = ops[:i] + ops[i + chunk:]
            if cand != ops and ok(with_ops(cur, cand)):
                ops = cand
                n = max(n - 1, 2)
                reduced = True
            else:
                i += chunk
        if not reduced:
            if chunk == 1:
                break
            n = min(len(ops), n * 2)
        if n_exec[0] >= max_exec or time.time() - t0 > budget_s:
            break
    # single deletions until fixpoint
    changed = True
    while changed and len(ops) > 1:
        changed = False
        for i in range(len(ops) - 1, -1, -1):
            cand = ops[:i] + ops[i + 1:]
            if ok(with_ops(cur, cand)):
                ops = cand
                changed = True
    cur = with_ops(cur, ops)
    # world-specific simplification passes
    simp = getattr(w, 'simplify', None)
    if simp is not None:
        progress = True
        rounds = 0
        while progress and rounds < 6:
            progress = False
            rounds += 1
            for cand in simp(cur):
                if ok(cand):
                    cur = cand
                    progress = True
                    break
    return cur, n_exec[0]


# ----------------------------------------------------------------------------- known findings

def load_known():
    p = os.path.join(VERIF_DIR, 'known_findings.json')
    if not os.path.exists(p):
        return []
    with open(p) as f:
        return json.load(f).get('findings', [])


_TOLERATED = None


def tolerated(prop):
    """Clauses of `prop` listed as status=known with match=clause: the world reports them in Outcome.known
    (never as violations) - the clause itself identifies the failing call site."""
    global _TOLERATED
    if _TOLERATED is None:
        _TOLERATED = {}
        for k in load_known():
            if k.get('status') == 'known' and k.get('match') == 'clause':
                _TOLERATED.setdefault(k['property'], set()).add(k['clause'])
    return _TOLERATED.get(prop, frozenset())


def skeleton(case):
    w = world_for(case['prop'])
    return w.skeleton(case)


def match_known(case, clause, known):
    sk = skeleton(case)
    for k in known:
        if k.get('status') != 'known' or k.get('property') != case['prop']:
            continue
        if k.get('clause') != clause:
            continue
        if k.get('match') == 'clause':
            return k
        for ks in k.get('skeletons', []):
            if ks == sk:
                return k
    return None


# ----------------------------------------------------------------------------- batch runner

def _chunk_worker(conn, prop, seed, tier, indices, avoid_frac_known, want_samples, deadline):
    """Runs in a forked child: execute runs `indices`, send one aggregated message."""
    try:
        import faulthandler
        faulthandler.dump_traceback_later(max(30.0, deadline - time.time() + 60.0), exit=True)
        stats = Counter()
        failures = []
        sigs = set()
        states = set()
        samples = []
        sim_time = 0.0
        done = 0
        for idx in indices:
            if time.time() > deadline:
                break
            avoid = avoid_for(prop, seed, idx, avoid_frac_known)
            case = generate(prop, seed, idx, tier, avoid)
            try:
                out = execute(case)
            except Exception:
                conn.send(('error', idx, traceback.format_exc()))
                return
            done += 1
            stats.update(out.stats)
            for kc, _ in out.known:
                stats['known-finding.' + kc] += 1
            sim_time += out.sim_time
            if out.sig is not None:
                sigs.add(h64(out.sig))
            for s in out.states:
                states.add(h64(s) if isinstance(s, str) else hash(s))
            mine = [v for v in out.violations if v[0].startswith(prop + '.')]
            if mine:
                failures.append((idx, mine[0][0], str(mine[0][2])[:300], len(case['ops']), sorted(avoid)))
            elif len(samples) < want_samples and out.sig is not None:
                samples.append({'run_index': idx, 'cfg': case.get('cfg'), 'ops': case['ops'][:60],
                                'log_tail': out.log[-12:]})
        conn.send(('ok', done, dict(stats), failures, sigs, states, samples, sim_time))
    except BaseException:
        try:
            conn.send(('error', -1, traceback.format_exc()))
        except Exception:
            pass
    finally:
        conn.close()
        os._exit(0)


_AVOID_TAGS = {}   # prop -> list of tags from known findings


def avoid_for(prop, seed, idx, tags):
    """70 % of runs avoid every known-finding trigger pattern, 30 % allow them."""
    if not tags:
        return ()
    r = run_rng(prop + '#avoid', seed, idx)
    if r.random() < 0.7:
        return tuple(tags)
    return ()


class HarnessError(Exception):
    pass


def run_batch(prop, seed, tier, n_runs, wall_s, workers, chunk, avoid_tags, first_index=0):
    """Execute runs [first_index, first_index+n_runs) in forked workers.  Returns aggregate dict."""
    ctx = mp.get_context('fork')
    t0 = time.time()
    deadline = t0 + wall_s
    agg = dict(stats=Counter(), failures=[], sigs=set(), states=set(), samples=[], sim_time=0.0,
               runs=0, stopped_by_deadline=False)
    next_idx = first_index
    end_idx = first_index + n_runs
    live = {}   # conn -> (proc, start)
    want_samples = 2

    def launch():
        nonlocal next_idx
        lo = next_idx
        hi = min(end_idx, lo + chunk)
        next_idx = hi
        pc, cc = ctx.Pipe(duplex=False)
        p = ctx.Process(target=_chunk_worker,
                        args=(cc, prop, seed, tier, list(range(lo, hi)), avoid_tags,
                              want_samples if len(agg['samples']) < 3 else 0, deadline))
        p.daemon = True
        p.start()
        cc.close()
        live[pc] = (p, time.time())

    while next_idx < end_idx or live:
        while next_idx < end_idx and len(live) < workers and time.time() < deadline:
            launch()
        if next_idx < end_idx and time.time() >= deadline:
            agg['stopped_by_deadline'] = True
            next_idx = end_idx
        if not live:
            break
        ready = mp_wait(list(live), timeout=5.0)
        now = time.time()
        for c in ready:
            p, _ = live.pop(c)
            try:
                msg = c.recv()
            except EOFError:
                p.join(1)
                raise HarnessError(f"worker died without a result (exit {p.exitcode})")
            finally:
                c.close()
            p.join(5)
            if msg[0] == 'error':
                raise HarnessError(f"harness exception in run {msg[1]}:\n{msg[2]}")
            _, done, stats, failures, sigs, states, samples, sim_time = msg
            agg['runs'] += done
            agg['stats'].update(stats)
            agg['failures'].extend(failures)
            agg['sigs'] |= sigs
            agg['states'] |= states
            agg['sim_time'] += sim_time
            for s in samples:
                if len(agg['samples']) < 3:
                    agg['samples'].append(s)
        if now > deadline + 90:
            for c, (p, _) in live.items():
                try:
                    p.kill()
                except Exception:
                    pass
            raise HarnessError("workers did not stop 90 s after the wall budget; killed")
    agg['wall_s'] = time.time() - t0
    return agg


# ----------------------------------------------------------------------------- replay files

def write_replay(case, clause, detail, seed, run_index, out, orig_len, repo, directory=None):
    directory = directory or os.path.join(VERIF_DIR, 'replays')
    os.makedirs(directory, exist_ok=True)
    name = f"{case['prop']}-{seed}-{run_index}-{clause}.json".replace('/', '_')
    path = os.path.join(directory, name)
    doc = {
        'property': case['prop'], 'clause': clause, 'detail': detail,
        'verif_seed': seed, 'run_index': run_index,
        'case': case, 'ops_original_len': orig_len,
        'skeleton': skeleton(case),
        'event_log': out.log[-400:], 'digest': out.digest(),
        'source_digest': source_digest(repo), 'harness_version': HARNESS_VERSION,
    }
    with open(path, 'w') as f:
        json.dump(doc, f, indent=1, sort_keys=True, default=str)
    return path


def replay_file(path):
    with open(path) as f:
        doc = json.load(f)
    out = execute(doc['case'])
    return doc, out
