"""Deterministic asyncio event loop for the simulator.

`SimLoop` is a real `asyncio.BaseEventLoop` (so real `Task`/`Future` objects run
on it, and `asyncio.get_running_loop()` inside param finds it) whose three
sources of nondeterminism are owned by the simulator:

* the clock is virtual (`time()`), idle time is skipped by jumping to the next timer;
* there is no selector / no I/O: the ready queue is advanced ONE handle per
  `step()`, in asyncio's own FIFO order (FIFO `call_soon` is an asyncio guarantee,
  we never permute it);
* `run_in_executor` does not start a thread: the job is parked in `self.jobs`
  and completed only when the scheduler says so (`complete_job`), as a handle
  appended at the tail of the ready queue exactly as `call_soon_threadsafe` does.
"""
import asyncio
import heapq
from asyncio import events


class SimLoop(asyncio.BaseEventLoop):

    _installed = False

    def __init__(self):
        super().__init__()
        self._vtime = 0.0
        self.jobs = []            # parked executor jobs: [fut, fn, args, state]
        self.steps = 0
        self.exc_reports = []     # contexts passed to the exception handler
        self.set_exception_handler(self._on_exception)
        self._installed = False

    # -- seams ---------------------------------------------------------------
    def time(self):
        return self._vtime

    def _write_to_self(self):     # call_soon_threadsafe wake-up: nothing to wake
        pass

    def _process_events(self, event_list):
        pass

    def run_in_executor(self, executor, func, *args):
        fut = self.create_future()
        self.jobs.append([fut, func, args, 'parked'])
        return fut

    def _on_exception(self, loop, context):
        exc = context.get('exception')
        self.exc_reports.append((context.get('message', ''), type(exc).__name__ if exc else None))

    # -- installation ----------------------------------------------------------
    def install(self):
        """Make this loop the running loop of the current thread."""
        import threading
        self._thread_id = threading.get_ident()
        self._prev_running = events._get_running_loop()
        events._set_running_loop(self)
        self._installed = True

    def uninstall(self):
        if self._installed:
            events._set_running_loop(self._prev_running)
            self._thread_id = None
            self._installed = False

    def is_running(self):
        return self._installed

    # -- scheduler interface ---------------------------------------------------
    def _move_due_timers(self):
        sched = self._scheduled
        while sched and sched[0]._cancelled:
            h = heapq.heappop(sched)
            h._scheduled = False
            self._timer_cancelled_count = max(0, self._timer_cancelled_count - 1)
        while sched and sched[0]._when <= self._vtime:
            h = heapq.heappop(sched)
            h._scheduled = False
            if not h._cancelled:
                self._ready.append(h)
            else:
                self._timer_cancelled_count = max(0, self._timer_cancelled_count - 1)

    def pending_timers(self):
        return sum(1 for h in self._scheduled if not h._cancelled)

    def ready_count(self):
        return sum(1 for h in self._ready if not h._cancelled)

    def step(self):
        """Run exactly one non-cancelled ready handle. If none is ready jump the
        virtual clock to the next timer. Returns False when there is nothing to do."""
        self._move_due_timers()
        while self._ready and self._ready[0]._cancelled:
            self._ready.popleft()
        if not self._ready:
            sched = self._scheduled
            while sched and sched[0]._cancelled:
                h = heapq.heappop(sched)
                h._scheduled = False
            if not sched:
                return False
            self._vtime = max(self._vtime, sched[0]._when)
            self._move_due_timers()
            while self._ready and self._ready[0]._cancelled:
                self._ready.popleft()
            if not self._ready:
                return False
        h = self._ready.popleft()
        self.steps += 1
        h._run()
        return True

    def complete_job(self, j):
        """Schedule completion of parked executor job j (tail of the ready queue)."""
        if j < 0 or j >= len(self.jobs):
            return False
        job = self.jobs[j]
        if job[3] != 'parked':
            return False
        job[3] = 'scheduled'

        def _complete():
            fut, fn, args, _ = job
            job[3] = 'done'
            if fut.cancelled():
                # a real executor thread would still have run the function
                try:
                    fn(*args)
                except BaseException:
                    pass
                return
            try:
                res = fn(*args)
            except BaseException as e:   # noqa
                if not fut.done():
                    fut.set_exception(e)
            else:
                if not fut.done():
                    fut.set_result(res)
        self.call_soon(_complete)
        return True

    def parked_jobs(self):
        return [i for i, j in enumerate(self.jobs) if j[3] == 'parked']

    def drain(self, max_steps):
        """Run until nothing is ready and no timer is pending (jobs stay parked)."""
        n = 0
        while n < max_steps and self.step():
            n += 1
        return n

    def shutdown(self):
        """Cancel whatever is left so no 'Task was destroyed' noise escapes."""
        try:
            for t in list(asyncio.all_tasks(self)):
                t.cancel()
            self.drain(2000)
        except Exception:
            pass
        self.uninstall()
        self._ready.clear()
        self._scheduled.clear()
        try:
            self.close()
        except Exception:
            pass
