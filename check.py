#!/venv/bin/python
"""check.py <PROP> [--tier quick|thorough] [--replay FILE] [--digests i,j,k] [--selftest determinism]

Exit codes: 0 property held on everything explored (KNOWN-FINDING lines allowed);
            1 + "VIOLATION property=<id> replay=<path>";
            2 harness error (never a verdict).
"""
import argparse
import json
import os
import subprocess
import sys
import time

VERIF_DIR = os.path.dirname(os.path.abspath(__file__))
PY = '/venv/bin/python'
GUARD = 'PARAM_VERIF_SIM'


def reexec_if_needed():
    repo = os.environ.get('VERIF_REPO', '/repo')
    if os.environ.get('VERIF_REEXEC') == '1':
        return repo
    env = dict(os.environ)
    env['VERIF_REEXEC'] = '1'
    env['VERIF_REPO'] = repo
    env['PYTHONPATH'] = repo + os.pathsep + VERIF_DIR
    env.setdefault('PYTHONHASHSEED', '0')
    env['PYTHONDONTWRITEBYTECODE'] = '1'
    env[GUARD] = '1'
    py = PY if os.path.exists(PY) else sys.executable
    os.execve(py, [py, '-X', 'faulthandler', os.path.abspath(__file__)] + sys.argv[1:], env)


TIERS = {
    # default run counts / wall budgets; worlds override via world.budget[tier]
    'quick': dict(runs=20000, wall=40.0),
    'thorough': dict(runs=600000, wall=720.0),
}


def main():
    repo = reexec_if_needed()
    sys.path.insert(0, VERIF_DIR)
    ap = argparse.ArgumentParser()
    ap.add_argument('prop')
    ap.add_argument('--tier', default=os.environ.get('VERIF_TIER', 'quick'))
    ap.add_argument('--replay')
    ap.add_argument('--digests')
    ap.add_argument('--reverse', action='store_true')
    ap.add_argument('--runs', type=int)
    ap.add_argument('--wall', type=float)
    ap.add_argument('--workers', type=int, default=int(os.environ.get('VERIF_WORKERS', '16')))
    ap.add_argument('--first', type=int, default=0)
    ap.add_argument('--no-evidence', action='store_true')
    ap.add_argument('--evidence-dir', default=os.path.join(VERIF_DIR, 'evidence'))
    ap.add_argument('--selftest')
    args = ap.parse_args()
    try:
        seed = int(os.environ.get('VERIF_SEED', '0'))
    except ValueError:
        seed = 0
    tier = args.tier if args.tier in ('quick', 'thorough') else 'quick'

    import param
    import numbergen
    if not (os.path.realpath(param.__file__).startswith(os.path.realpath(repo)) and
            os.path.realpath(numbergen.__file__).startswith(os.path.realpath(repo))):
        print(f"HARNESS-ERROR: param imported from {param.__file__}, expected under {repo}")
        return 2

    from sim import kernel as K
    K.load_worlds()
    prop = args.prop

    try:
        if args.replay:
            return do_replay(K, args.replay)
        if args.digests is not None:
            return do_digests(K, prop, seed, tier, args.digests, args.reverse)
        if args.selftest == 'determinism':
            return do_determinism(K, prop, seed, tier, args.runs or (64 if tier == 'quick' else 2000), args.workers)
        return do_check(K, prop, seed, tier, args, repo)
    except K.HarnessError as e:
        print(f"HARNESS-ERROR: {e}")
        return 2


def do_replay(K, path):
    doc, out = K.replay_file(path)
    clauses = [v[0] for v in out.violations] + [v[0] for v in out.known]
    print(f"replay {path}: clause expected={doc['clause']} got={clauses} digest expected={doc['digest']} got={out.digest()}")
    for line in out.log[-40:]:
        print('  ' + line)
    for v in out.violations:
        print(f"  VIOLATED {v[0]} step={v[1]}: {v[2]}")
    for v in out.known:
        print(f"  KNOWN-FINDING (tolerated) {v[0]}: {v[1]}")
    if doc['clause'] in clauses:
        print(f"VIOLATION property={doc['property']} replay={path}")
        return 1
    return 0


def do_digests(K, prop, seed, tier, spec, reverse):
    idxs = [int(x) for x in spec.split(',') if x != '']
    if reverse:
        idxs = idxs[::-1]
    res = {}
    tags = known_tags(K, prop)
    for i in idxs:
        case = K.generate(prop, seed, i, tier, K.avoid_for(prop, seed, i, tags))
        out = K.execute(case)
        res[str(i)] = [out.digest(), sorted(set(out.clauses()))]
    print('DIGESTS ' + json.dumps(res, sort_keys=True))
    return 0


def known_tags(K, prop):
    tags = []
    for k in K.load_known():
        if k.get('property') == prop and k.get('status') == 'known' and k.get('avoid'):
            for t in ([k['avoid']] if isinstance(k['avoid'], str) else k['avoid']):
                if t not in tags:
                    tags.append(t)
    return tags


def second_interpreter_digests(prop, seed, tier, idxs, hashseed, reverse=True, timeout=600):
    env = dict(os.environ)
    env['PYTHONHASHSEED'] = str(hashseed)
    env['VERIF_SEED'] = str(seed)
    cmd = [sys.executable, '-X', 'faulthandler', os.path.abspath(__file__), prop, '--tier', tier,
           '--digests', ','.join(map(str, idxs))]
    if reverse:
        cmd.append('--reverse')
    r = subprocess.run(cmd, env=env, capture_output=True, text=True, timeout=timeout)
    for line in r.stdout.splitlines():
        if line.startswith('DIGESTS '):
            return json.loads(line[8:])
    raise RuntimeError(f"digest subprocess failed rc={r.returncode}:\n{r.stdout[-2000:]}\n{r.stderr[-2000:]}")


def do_determinism(K, prop, seed, tier, n, workers):
    """n runs, twice each, in different fresh interpreters, other hash seed / order / worker count."""
    idxs = list(range(n))
    from concurrent.futures import ThreadPoolExecutor
    def part(hashseed, nproc, reverse):
        chunks = [idxs[i::nproc] for i in range(nproc)]
        res = {}
        with ThreadPoolExecutor(nproc) as ex:
            for d in ex.map(lambda c: second_interpreter_digests(prop, seed, tier, c, hashseed, reverse, 3600), [c for c in chunks if c]):
                res.update(d)
        return res
    a = part(0, workers, False)
    b = part(20261003, 3, True)
    bad = [i for i in a if a[i] != b.get(i)]
    print(f"determinism {prop}: {len(a)} runs x2 (hashseed 0/{workers} procs/ascending vs hashseed 20261003/3 procs/descending): {len(bad)} differ")
    if bad:
        for i in bad[:10]:
            print(f"  run {i}: {a[i]} vs {b.get(i)}")
        print("HARNESS-ERROR: nondeterministic simulation")
        return 2
    return 0


def do_check(K, prop, seed, tier, args, repo):
    t0 = time.time()
    w = K.world_for(prop)
    budget = dict(TIERS[tier])
    budget.update(getattr(w, 'budget', {}).get(tier, {}))
    if os.environ.get('VERIF_BUDGET_S'):
        budget['wall'] = float(os.environ['VERIF_BUDGET_S'])
        budget['runs'] = 10**9
    if args.runs:
        budget['runs'] = args.runs
    if args.wall:
        budget['wall'] = args.wall
    print(f"VERIF_SEED={seed} property={prop} tier={tier} world={w.name} runs<={budget['runs']} wall<={budget['wall']}s repo={repo}")
    known = K.load_known()
    tags = known_tags(K, prop)
    violations = []          # (clause, replay path)
    known_hits = {}          # id -> entry
    lines = []

    # 1. stored replays: known entries must still fail (else stale), fixed entries must pass
    for k in known:
        if k.get('property') != prop or not k.get('replay'):
            continue
        path = os.path.join(VERIF_DIR, k['replay'])
        doc, out = K.replay_file(path)
        failing = k['clause'] in [v[0] for v in out.violations] + [v[0] for v in out.known]
        if k['status'] == 'known':
            if failing:
                known_hits[k['id']] = k
            else:
                lines.append(f"NOTE: known finding {k['id']} no longer reproduces from {k['replay']} (repaired upstream?)")
        elif k['status'] == 'fixed' and failing:
            violations.append((k['clause'], path, f"regression of fixed finding {k['id']}"))

    # 2. the batch
    chunk = getattr(w, 'chunk', 500)
    agg = K.run_batch(prop, seed, tier, budget['runs'], budget['wall'], args.workers, chunk, tags, args.first)

    # 3. failures: shrink, classify, write replay, verify in a fresh interpreter
    harness_problems = []
    by_clause = {}
    for f in sorted(agg['failures']):
        by_clause.setdefault(f[1], []).append(f)
    unclassified = 0
    shrink_budget = 25.0 if tier == 'quick' else 60.0
    for clause, fl in sorted(by_clause.items()):
        # prefer short cases and, first, runs generated in avoid-mode (cannot be a known pattern)
        fl.sort(key=lambda f: (0 if f[4] else 1, f[3], f[0]))
        reported_new = False
        for n_done, f in enumerate(fl):
            if n_done >= 4 or reported_new:
                unclassified += len(fl) - n_done
                break
            idx = f[0]
            case = K.generate(prop, seed, idx, tier, f[4])
            small, nexec = K.shrink(case, clause, budget_s=shrink_budget)
            out = K.execute(small)
            if clause not in [v[0] for v in out.violations]:
                # state left behind by an earlier run of the same worker process (a change to the library may introduce a
                # process-wide leak): not a confirmed violation; an error of the harness unless another failure is confirmed
                harness_problems.append(f"run {idx} failed with {clause} in the batch but not when re-executed")
                continue
            k = K.match_known(small, clause, known)
            if k is not None:
                known_hits[k['id']] = k
                continue
            detail = [v for v in out.violations if v[0] == clause][0][2]
            path = K.write_replay(small, clause, str(detail), seed, idx, out, len(case['ops']), repo)
            # fresh-interpreter confirmation
            r = subprocess.run([sys.executable, os.path.abspath(__file__), prop, '--replay', path],
                               capture_output=True, text=True, timeout=300, env=dict(os.environ, PYTHONHASHSEED='7'))
            if f"VIOLATION property={prop} replay={path}" not in r.stdout:
                harness_problems.append(f"violation {clause} of run {idx} does not replay from {path} in a fresh interpreter:\n{r.stdout[-1500:]}{r.stderr[-1500:]}")
                continue
            violations.append((clause, path, str(detail)[:200]))
            reported_new = True

    # 4. determinism spot-check in a second interpreter (other hash seed, reversed order)
    ndet = 16 if tier == 'quick' else 64
    det_idx = list(range(args.first, args.first + min(ndet, max(1, agg['runs']))))
    mine = {}
    for i in det_idx:
        case = K.generate(prop, seed, i, tier, K.avoid_for(prop, seed, i, tags))
        out = K.execute(case)
        mine[str(i)] = [out.digest(), sorted(set(out.clauses()))]
    other = second_interpreter_digests(prop, seed, tier, det_idx, 20261003)
    if mine != other:
        bad = [i for i in mine if mine[i] != other.get(i)]
        harness_problems.append(f"determinism spot-check failed for runs {bad[:8]}")
    if harness_problems and not violations:
        # (a violation that replays from its file in a fresh interpreter stands on its own; without one, runs that do not
        # repeat are an error of the harness - or a process-wide leak in the library under test - and nothing is claimed)
        raise K.HarnessError(harness_problems[0])
    for hp in harness_problems:
        lines.append("NOTE: " + hp.split('\n')[0] + " (runs of one worker process influence each other; the violation below replays on its own)")

    wall = time.time() - t0
    # 5. evidence
    if not args.no_evidence:
        write_evidence(K, w, prop, seed, tier, agg, violations, known_hits, unclassified, wall, repo, args.evidence_dir, len(det_idx))

    for ln in lines:
        print(ln)
    print(f"runs={agg['runs']} distinct_nontrivial={len(agg['sigs'])} states={len(agg['states'])} sim_time={agg['sim_time']:.1f} "
          f"failures={len(agg['failures'])} wall={wall:.1f}s runs_per_hour={int(agg['runs'] / max(agg['wall_s'], 1e-6) * 3600)}")
    top = ', '.join(f"{k}={v}" for k, v in sorted(agg['stats'].items()))
    print(f"fired: {top}")
    for k in known_hits.values():
        print(f"KNOWN-FINDING: property={prop} {k['what']}")
    if agg['runs'] == 0:
        print("HARNESS-ERROR: no run executed")
        return 2
    if violations:
        for clause, path, detail in violations:
            print(f"  {clause}: {detail}")
            print(f"VIOLATION property={prop} replay={path}")
        return 1
    print(f"OK property={prop} held on {agg['runs']} simulated runs")
    return 0


def write_evidence(K, w, prop, seed, tier, agg, violations, known_hits, unclassified, wall, repo, evdir, ndet):
    os.makedirs(evdir, exist_ok=True)
    level = getattr(w, 'levels', {}).get(prop, 'exploration')
    runs = agg['runs']
    per_hour = int(runs / max(agg['wall_s'], 1e-6) * 3600)
    cov = {
        'evaluations': runs,
        'distinct_nontrivial': len(agg['sigs']),
        'rule': w.rules.get(prop, w.rules.get('*', '')) if hasattr(w, 'rules') else '',
        'samples': agg['samples'][:3],
        'simulated_runs_per_hour': per_hour,
        'seeds_per_hour': per_hour,
        'simulated_time': {'value': round(agg['sim_time'], 3), 'unit': getattr(w, 'time_unit', 'n/a: logical steps only')},
        'faults_and_probes_fired': dict(sorted(agg['stats'].items())),
        'distinct_abstract_states': len(agg['states']),
        'state_measure': getattr(w, 'state_measure', ''),
        'components': getattr(w, 'components', {}),
        'determinism_spot_check': f"{ndet} runs re-executed in a second interpreter (PYTHONHASHSEED=20261003, reversed order): digests equal",
        'stopped_by_deadline': agg['stopped_by_deadline'],
        'failing_runs': len(agg['failures']),
        'failing_runs_not_minimised': unclassified,
        'known_findings_reproduced': sorted(known_hits),
        'source_digest': K.source_digest(repo),
        'violation_replays': [v[1] for v in violations],
        'exhaustive': False,
    }
    doc = {
        'property_id': prop, 'tier': tier, 'seed': seed, 'level': level,
        'coverage': cov,
        'assumptions': list(getattr(w, 'assumptions', {}).get(prop, getattr(w, 'assumptions', {}).get('*', []))),
        'wall_s': round(wall, 2),
        'violations': len(violations),
    }
    with open(os.path.join(evdir, f'{prop}.json'), 'w') as f:
        json.dump(doc, f, indent=1, sort_keys=True, default=str)


if __name__ == '__main__':
    try:
        rc = main()
    except SystemExit:
        raise
    except BaseException:
        import traceback
        traceback.print_exc()
        print("HARNESS-ERROR: unhandled exception")
        rc = 2
    sys.stdout.flush()
    sys.exit(rc)
