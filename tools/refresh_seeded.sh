#!/bin/bash
# refresh_seeded.sh [ids...]: re-run the quick check of the property each seeded change breaks against a scratch
# worktree carrying the change, and record the verdict in seeded/<id>/meta.json (our_checks_quick_tier).
cd "$(dirname "$0")/.."
ids="$@"; [ -z "$ids" ] && ids=$(for d in $(ls seeded); do grep -q '"obsolete"' seeded/$d/meta.json || echo $d; done)
one() {
  id=$1; prop=$(python3 -c "import json;m=json.load(open('seeded/$id/meta.json'));print(m.get('checked_by') or m['breaks_property'])")
  res=$(tools/mutation_run.sh seeded/$id/patch.diff "$prop" 2>&1 | grep -v conda | grep -E "^(CAUGHT|MISSED|ERROR|PATCH)" | head -1)
  python3 - "$id" "$res" <<'PY'
import json, sys
id_, res = sys.argv[1], sys.argv[2]
p = f"seeded/{id_}/meta.json"
m = json.load(open(p))
m['our_checks_quick_tier'] = [res]
json.dump(m, open(p, 'w'), indent=1)
PY
  echo "$id: ${res:0:160}"
}
export -f one
printf '%s\n' $ids | xargs -P 4 -I{} bash -c 'one {}'
