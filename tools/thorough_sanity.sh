#!/bin/bash
# thorough_sanity.sh <seconds per property> [seed]: run every thorough check with a wall budget, print one line per property
cd "$(dirname "$0")/.."
b="${1:-120}"; seed="${2:-0}"
for p in C02 C03 C04 C05 C06 C07 C08 C09 C10 C12 C13 C14 C17 C18 C19; do
  out=$(VERIF_SEED=$seed VERIF_BUDGET_S=$b ./check.py $p --tier thorough --no-evidence 2>&1 | grep -v conda)
  if echo "$out" | grep -q "^OK property=$p"; then echo "ok $p $(echo "$out" | grep '^runs=' | cut -c1-110)"; else echo "=== $p"; echo "$out" | grep -v "^fired" | tail -6 | cut -c1-500; fi
done
