#!/bin/bash
# verify_seeded.sh <PROP> <mN> [props-to-check]  : confirm a sub-agent's seeded change, run our checks on it, file it under /verif/seeded/
prop="$1"; m="$2"; checks="${3:-$prop}"
src=/tmp/mut_${prop}_out/$m
[ -f $src/patch.diff ] || { echo "no $src/patch.diff"; exit 2; }
id="${prop}-${m}"
wt=$(mktemp -d /dev/shm/seedchk.XXXXXX); rmdir $wt
git -C /repo worktree add -q $wt HEAD || exit 2
trap "git -C /repo worktree remove --force $wt 2>/dev/null; rm -rf $wt" EXIT
base_demo=$(cd /tmp && PYTHONPATH=$wt /venv/bin/python $src/demo.py >/dev/null 2>&1; echo $?)
git -C $wt apply $src/patch.diff || { echo "$id: PATCH DOES NOT APPLY"; exit 2; }
mut_demo=$(cd /tmp && PYTHONPATH=$wt /venv/bin/python $src/demo.py >/tmp/demo_$id.out 2>&1; echo $?)
tests=$(cd $wt && /venv/bin/python -m pytest -q -p no:cacheprovider --timeout=900 --color=no 2>&1 | grep -E "passed|failed" | tail -1)
echo "$id: demo on clean tree exit=$base_demo, with change exit=$mut_demo, tests: $tests"
verdicts=""
cd /verif
for p in $checks; do
  out=$(VERIF_REPO=$wt ./check.py $p --tier quick --no-evidence 2>&1 | grep -v conda)
  if echo "$out" | grep -q "^VIOLATION property=$p"; then v="CAUGHT $p: $(echo "$out" | grep -B1 '^VIOLATION' | head -1 | cut -c1-200)"
  elif echo "$out" | grep -q "^OK property=$p"; then v="MISSED $p"
  else v="ERROR $p: $(echo "$out" | tail -2 | tr '\n' ' ' | cut -c1-200)"; fi
  echo "   $v"; verdicts="$verdicts$v
"
done
mkdir -p /verif/seeded/$id
cp $src/patch.diff $src/demo.py /verif/seeded/$id/
cp $src/notes.txt /verif/seeded/$id/notes.txt 2>/dev/null
python3 - "$id" "$prop" "$base_demo" "$mut_demo" "$tests" "$verdicts" <<'PY'
import json,sys
id_,prop,b,m,tests,verd=sys.argv[1:7]
notes=open(f'/verif/seeded/{id_}/notes.txt').read() if __import__('os').path.exists(f'/verif/seeded/{id_}/notes.txt') else ''
json.dump({'id':id_,'breaks_property':prop,'source':'independent sub-agent given only the property text and a scratch worktree of /repo HEAD',
  'needs_to_manifest':notes.strip()[:1500],
  'confirmed':{'demo_exit_on_unchanged_tree':int(b),'demo_exit_with_change':int(m),'existing_suite_with_change':tests.strip()},
  'our_checks_quick_tier':[v for v in verd.strip().split('\n') if v],
  'commands':[f'git -C <scratch worktree of /repo HEAD> apply seeded/{id_}/patch.diff','PYTHONPATH=<worktree> /venv/bin/python seeded/%s/demo.py'%id_,'cd <worktree> && /venv/bin/python -m pytest -q -p no:cacheprovider','VERIF_REPO=<worktree> ./check.py <PROP> --tier quick --no-evidence']},
  open(f'/verif/seeded/{id_}/meta.json','w'),indent=1)
PY
