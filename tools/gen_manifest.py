#!/usr/bin/env python3
"""Regenerates /verif/MANIFEST.json from the table below (kept here so the manifest stays valid and consistent)."""
import json, os
V = os.path.dirname(os.path.dirname(os.path.abspath(__file__)))
props = [json.loads(l) for l in open(os.path.join(V, 'properties.jsonl'))]
NA = {
 'C01': "pure accept/reject function of (parameter configuration, candidate value, route): no state evolves, nothing is scheduled, nothing fails part-way; deciding it is input x configuration enumeration, not simulation",
 'C11': "slot inheritance and default re-validation are a pure function of the declared class hierarchy evaluated once at class creation: no history, schedule, clock or fault to simulate",
 'C15': "serialize->deserialize is a relation on single (configuration, value) inputs of pure functions: no state, schedule, clock or fault",
 'C16': "schema-vs-serialized-state validity is a relation on single (configuration, value) inputs of pure functions (and jsonschema is absent from /venv): nothing to simulate",
 'C20': "eval(pprint(obj)) == obj is a pure function of one object's state: no history, schedule or fault",
}
TRUST = "Trusted: the harness interpreter, the reference model named in the check (small, written from the property statement), CPython. Sampling: a clean batch is evidence, not proof."
CHECKS = {
 'C02': dict(level='fault_enumeration', ref='§5 C02', world='refs',
   text="Rejected attempts injected at every position of seeded link/assignment histories: invalid plain value, reference whose current value is invalid for the target, constant and read-only violations, invalid class-level default, single-key update, rejected constructor - on linked and unlinked parameters; each attempt is bracketed by complete snapshots (values of every object and class, universal event log, watcher-table sizes of targets and sources) and followed by source updates so that a link switched or dropped by the failed attempt shows up against the unchanged link model.",
   tech="deterministic fault injection: rejected assignments at every position of seeded histories, before/after snapshot equality plus behavioural link oracle"),
 'C03': dict(level='exploration', ref='§5 C03', world='dispatch',
   text="Seeded search over programs x watcher configurations: every run interprets one generated program (sets, same-object and equal-value sets, updates, triggers, slot sets, watch/unwatch, scripted re-entrant callbacks) against real param objects and against an executable reference dispatcher written from the statement; the two delivery histories (who was called, nesting, order, events, old/new identity, type, object state at entry) are compared entry by entry, three-valued where the statement is silent.",
   tech="deterministic simulation of the dispatcher: seeded operation/callback programs, lock-step executable reference dispatcher as history oracle, ddmin shrinking"),
 'C04': dict(level='exploration', ref='§5 C04', world='dispatch',
   text="As C03 with batch_call_watchers / discard_events contexts nested to depth 4, update and trigger inside them and repeated assignments; oracle clauses: nothing delivered while deferring, exactly one call per watcher at the outermost exit with one event per qualifying parameter carrying the final value, precedence order, discard drops exactly its own events, trigger typing.",
   tech="deterministic simulation of batched dispatch: seeded nestings of contexts around operation programs, reference dispatcher as history oracle"),
 'C05': dict(level='fault_enumeration', ref='§5 C05', world='faults',
   text="Fault-site enumeration over sampled workloads: phase 1 records every site a workload reaches (k-th watcher invocation raises, rejected value as k-th key of each update in three rejection kinds, exceptional exit of each context at each unwind depth, rejected constructor); phase 2 re-executes once per selected site (quick: seeded sample, thorough: all + pairs) and compares the object, by an identical probe history, with a fresh twin built on a fresh class from the object's actual values and watchers; plus announce-by-raise against a pre-fault twin and a direct still-deferred check inside surrounding batches.",
   tech="deterministic fault injection with crash-point enumeration: raise/reject at every reached site, model-free fresh-twin differential oracle"),
 'C12': dict(level='exploration', ref='§5 C12', world='class',
   text="Seeded search over interleavings of instance creation, instance and class assignments at every level of generated hierarchies (chains, fork, diamond; instantiate / per_instance / constant / mutable defaults / mutable Parameter attributes), in-place mutation of values and of Parameter attributes, first access of instance Parameters; after every step the value (identity label and independently tracked content) and Parameter attributes of every class and instance are compared with an ownership model.",
   tech="deterministic simulation of class/instance operation interleavings against an ownership reference model (who owns each value slot and each Parameter attribute)"),
 'C13': dict(level='exploration', ref='§5 C13', world='class',
   text="Same hierarchies with add_parameter at every level and explicit namespace reads (list / [] / in / values / repr) as cache-filling operations; after every step every Parameter found by a static walk of the MRO must be listed in .param, be the identical object, have default == class attribute, and .param.values(), repr and serialization must agree with getattr on every class and instance; watchers on just-added parameters must work.",
   tech="deterministic simulation of read/mutate interleavings with a cache-coherence invariant (.param namespace vs static MRO walk vs getattr) after every step"),
 'C14': dict(level='exploration', ref='§5 C14', world='class',
   text="Histories of constructor arguments for constants, instance sets of the identical / an equal / a different object, update(), class-level sets on declaring and inheriting classes, read-only sets, name sets, nested edit_constant blocks on several instances left normally or by an injected exception, instance Parameter copies created before or after; identity of the held object, TypeError for every forbidden attempt, acceptance inside the object's own block, and constant flags on class and instance Parameter objects are checked after every step.",
   tech="deterministic simulation with injected exceptions in edit_constant bodies; identity/flag invariants after every step"),
 'C17': dict(level='exploration', ref='§5 C17', world='copy',
   text="Restart-from-durable-state simulation: a seeded history drives an object (sets, in-place mutations of an instantiate=True value and of ordinary attributes, per-instance Parameter edits, attach / replace / detach of sub-objects two levels deep, extra watchers), a deepcopy or pickle (protocols 2-5; several per run; copies of copies) is taken at a seeded point, then diverging histories run on both sides; the snapshot must succeed and be equal, share no mutable state, every later operation must be invisible on the other side, and the dependent methods of the operated side - and only those - must run exactly as on a fresh object.",
   tech="deterministic simulation with snapshot/restore at seeded points (deepcopy, pickle) and diverging histories; equality, independence and dependency-log oracles"),
 'C18': dict(level='exploration', ref='§5 C18', world='selector',
   text="Seeded search over mutation histories of Selector/ListSelector objects (list- and dict-declared, class-level and per-instance): item/key assignment, append, insert, extend, update, pop by index/key, remove, clear, wholesale replacement incl. style switch, interleaved with value assignments; after every step list(objects), objects.items(), names, get_range() and accept/reject of a present and an absent value are compared with a sequential reference container; pop return values and one objects-notification per mutation are checked.",
   tech="deterministic simulation of mutation histories against a sequential reference container (ordered name/object list), five-view agreement invariant after every step"),
 'C19': dict(level='exploration', ref='§5 C19', world='time',
   text="Seeded search over clock schedules: a run-private param.Time clock is jumped forward, backward, to repeated times, to -1 and far away while Number parameters driven by numbergen generators (names/seeds repeated across instances, arithmetic compositions, one impure counter) are read, double-read, inspected, forced, state-pushed/popped and swapped, inside nested time contexts left normally or by exception; every read is compared with a fresh generator of the same spec at that time; context exit must restore time (value and type), timestep and until.",
   tech="deterministic simulation with a simulated clock: seeded time jumps (backward, repeated, sentinel, huge) and context faults; fresh-generator table keyed by (generator, time) as oracle"),
 'C06': dict(level='exploration', ref='§5 C06', world='depends',
   text="Seeded search over generated class families (single class, chains, fork, diamond) with 1-3 depends(watch=True) methods over parameters, a Parameter-attribute spec and a method dependency, overrides that re-decorate / drop the decorator / inherit, on_init and queued variants and function-form dependencies, driven by programs of set / same-value set / update / batch / attribute set / construction; per operation the multiset of (defining class, method) invocations must equal a dependency-closure model along the Python MRO; method_dependencies() is cross-checked.",
   tech="deterministic simulation over generated class hierarchies x operation programs, dependency-closure reference model (exact invocation multiset per operation)"),
 'C07': dict(level='exploration', ref='§5 C07', world='depends',
   text="Seeded search over attach / replace / detach histories at every level of dependency paths of depth 1-3 (several dependencies through one sub-object, 'a.b.param'), with a pool of reusable nodes so detached objects stay alive and get poked, biased to equal-valued, first-dependency-only and later-dependency-only swaps; a method must run exactly once iff a value reached through a path that resolves before and after changed, never for detached objects, and objects no longer reachable from the parent must be back at their watcher baseline.",
   tech="deterministic simulation of membership-change histories (attach/replace/detach) with an attachment-path reference model and a watcher-leak baseline"),
 'C08': dict(level='exploration', ref='§5 C08', world='refs',
   text="Seeded search over histories of source updates, links (Parameter / bind / two-source bind / depends method / rx expression / nested list or dict of these, made in the constructor or later), plain overrides, relinks and update() contexts on 1-3 targets with five allow_refs parameters; after every step every linked parameter must equal its reference evaluated on the model's source values, unlinked parameters must not move, unreferenced sources must carry no extra watcher and update contexts must restore value and link.",
   tech="deterministic simulation of link histories: link-map reference model, mirror invariant and watcher-leak baseline after every step"),
 'C09': dict(level='exploration', ref='§5 C09', world='rx',
   text="Seeded search over typed expression DAGs (shared sub-expressions, inputs used as root and as argument; every binary operator in normal and reflected position, unary operators, indexing and slicing with reactive indices, method calls, attribute access, pipe, nested where, and_ or_ not_ bool len in_ is_ is_not map) over rx roots, Parameters and bound functions, driven by histories of input updates - including values that make nodes raise, later repaired - interleaved with reads of any node (reads fill caches) and watch registrations; every read is compared with a plain-Python evaluator of the same DAG (same value and type, or same exception class), watch callbacks must have received the fresh value.",
   tech="deterministic simulation of update/read histories over generated expression DAGs with injected failing inputs; plain-Python evaluator as cache-coherence oracle"),
 'C10': dict(level='exploration', ref='§5 C10', world='async',
   text="Seeded search over schedules: every run is one exactly repeatable interleaving of assignments (coroutine / async generator / sync generator / bound async / plain / Parameter reference), source changes, rx input updates and reads, single event-loop steps, gate resolutions in any order (optionally failing) and executor-job completions on a virtual-time asyncio loop; oracles: attributable unique results (no stale apply, cancel-is-permanent), final value belongs to the latest evaluation of the latest assignment, bounded quiescence.",
   tech="deterministic simulation: virtual-time asyncio loop with seeded completion orders, interleaved assignments and injected awaitable failures; history oracle with attributable values"),
}
ORDER = ['C01','C02','C03','C04','C05','C06','C07','C08','C09','C10','C11','C12','C13','C14','C15','C16','C17','C18','C19','C20']
m = {"version": 1,
 "setup_cmd": "cd /verif && /venv/bin/python -c \"import hypothesis, sys; sys.path.insert(0,'/repo'); import param; print('setup ok', param.__file__)\"",
 "hooks": {"guard": "PARAM_VERIF_SIM",
   "enable": "checks re-exec themselves with PARAM_VERIF_SIM=1 PYTHONPATH=/repo:/verif PYTHONHASHSEED=0; no hook exists in /repo (every seam needed is public API, the running asyncio loop, run_in_executor or time_fn), so the guard currently switches nothing",
   "baseline_off_cmd": "cd /repo && env -u PARAM_VERIF_SIM /venv/bin/python -m pytest -ra -q -p no:cacheprovider --timeout=900 --continue-on-collection-errors",
   "source_commits": [], "add_only": True},
 "engines": [{"name": "sim-kernel", "path": "/verif/sim/kernel.py", "serves_properties": sorted(CHECKS),
   "kind_free_text": "seeded deterministic simulation: per-run PRNG from sha256(property|VERIF_SEED|run), JSON operation/fault/schedule lists executed against the real param code under simulator-owned seams, oracle clauses, ddmin shrinking, fresh-interpreter replay, second-interpreter determinism spot check"}],
 "checks": [], "notes": "Technique family: deterministic simulation with fault injection. See DESIGN.md. Genuine defects found are in known_findings.json (fixed ones carry the /repo commit).",
 "not_applicable": []}
for p in props:
    pid = p['id']
    if pid in CHECKS:
        c = CHECKS[pid]
        m['checks'].append({"property_id": pid, "quick_cmd": f"./check.py {pid} --tier quick", "thorough_cmd": f"./check.py {pid} --tier thorough",
          "evidence_file": f"/verif/evidence/{pid}.json", "replay_cmd_template": f"./check.py {pid} --replay {{path}}", "engine": "sim-kernel",
          "level_claimed": {"category": c['level'], "text": c['text'], "design_ref": c['ref']}, "level_note": c.get('note', TRUST), "technique": c['tech']})
    elif pid in NA:
        m['not_applicable'].append({"property_id": pid, "reason": NA[pid]})
    else:
        m['not_applicable'].append({"property_id": pid, "reason": "not claimed yet: the simulation world for this property is designed (DESIGN.md §5) but its check has not been built/validated at this commit"})
json.dump(m, open(os.path.join(V, 'MANIFEST.json'), 'w'), indent=1)
print('checks:', [c['property_id'] for c in m['checks']])
