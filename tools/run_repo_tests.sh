#!/bin/bash
# Run the pinned baseline suite of /repo (guard OFF) and print a one-line summary.
cd "${1:-/repo}" && env -u PARAM_VERIF_SIM /venv/bin/python -m pytest -q -p no:cacheprovider --timeout=900 --continue-on-collection-errors --color=no 2>&1 | tail -3
