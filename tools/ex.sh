#!/bin/bash
# ex.sh PROP N  : explore without the noisy log lines
PYTHONPATH=${VERIF_REPO:-/repo} /venv/bin/python /verif/tools/explore.py "$@" 2>&1 | grep -v conda | cut -c1-${COLS:-900}
