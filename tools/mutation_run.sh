#!/bin/bash
# mutation_run.sh <patch.diff> "<props>" [extra check.py args]
# Applies a seeded change to a scratch worktree of /repo's HEAD (outside /repo and /verif), runs the given
# checks against it through VERIF_REPO, prints one verdict line per property, removes the worktree.
patch=$(realpath "$1"); props="$2"; shift 2
wt=$(mktemp -d /dev/shm/mutrun.XXXXXX)
rmdir "$wt"
git -C /repo worktree add -q "$wt" HEAD || exit 2
cleanup() { git -C /repo worktree remove --force "$wt" 2>/dev/null; rm -rf "$wt"; }
trap cleanup EXIT
if ! git -C "$wt" apply "$patch"; then echo "PATCH-DOES-NOT-APPLY $patch"; exit 2; fi
cd "$(dirname "$0")/.."
for p in $props; do
  out=$(VERIF_REPO="$wt" ./check.py $p --tier quick --no-evidence "$@" 2>&1 | grep -v conda)
  if echo "$out" | grep -q "^VIOLATION property=$p"; then
    echo "CAUGHT $p $(echo "$out" | grep -B1 '^VIOLATION' | head -1 | cut -c1-220)"
  elif echo "$out" | grep -q "^OK property=$p"; then
    echo "MISSED $p $(echo "$out" | grep '^runs=' | cut -c1-80)"
  else
    echo "ERROR $p"; echo "$out" | tail -5 | cut -c1-300
  fi
done
