#!/bin/bash
# For every stored finding replay: must fail on the pinned original tree (/tmp/param_orig) and, if status=fixed, pass on /repo.
cd "$(dirname "$0")/.."
[ -d /tmp/param_orig ] || git -C /repo worktree add -q /tmp/param_orig b6822fa
python3 - <<'PY'
import json,subprocess,os
k=json.load(open('known_findings.json'))['findings']
bad=0
for e in k:
    f=e['replay']; p=e['property']
    def run(repo):
        env=dict(os.environ, VERIF_REPO=repo)
        r=subprocess.run(['./check.py',p,'--replay',f],capture_output=True,text=True,env=env)
        return 'VIOLATION property' in r.stdout
    o,n=run('/tmp/param_orig'),run('/repo')
    ok = (o or bool(e.get('orig_masks'))) and (n == (e['status']=='known'))
    if not ok: bad+=1
    print(('ok  ' if ok else 'BAD '), e['id'], 'orig_fails=%s now_fails=%s status=%s'%(o,n,e['status']))
print('bad:',bad)
PY
