#!/bin/bash
# soak.sh "<props>" <first_seed> <n_seeds> [tier]  - run checks over several VERIF_SEED values, print only what is not OK
props="$1"; first="${2:-100}"; n="${3:-5}"; tier="${4:-quick}"
cd "$(dirname "$0")/.."
for s in $(seq $first $((first+n-1))); do
  for p in $props; do
    out=$(VERIF_SEED=$s ./check.py $p --tier $tier --no-evidence 2>&1 | grep -v conda)
    rc=$?
    if ! echo "$out" | grep -q "^OK property=$p"; then
      echo "=== seed=$s prop=$p"; echo "$out" | grep -v "^fired" | tail -6 | cut -c1-600
    else
      echo "ok seed=$s prop=$p $(echo "$out" | grep '^runs=' | cut -c1-60)"
    fi
  done
done
