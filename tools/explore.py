#!/venv/bin/python
"""Developer tool: run N cases of a property in-process, shrink the first failure per clause, print it."""
import os, sys, json, time
sys.path.insert(0, os.environ.get('VERIF_REPO', '/repo')); sys.path.insert(0, os.path.dirname(os.path.dirname(os.path.abspath(__file__))))
from collections import Counter
from sim import kernel as K
K.load_worlds()
prop = sys.argv[1]; N = int(sys.argv[2]) if len(sys.argv) > 2 else 300
only = sys.argv[3] if len(sys.argv) > 3 else None
tier = os.environ.get('VERIF_TIER', 'quick'); seed = int(os.environ.get('VERIF_SEED', '0'))
t0 = time.time(); cl = Counter(); ex = {}; stats = Counter(); sigs = set()
for i in range(N):
    case = K.generate(prop, seed, i, tier)
    out = K.execute(case)
    stats.update(out.stats)
    if out.sig: sigs.add(out.sig)
    for v in out.violations:
        cl[v[0]] += 1; ex.setdefault(v[0], (i, v[2]))
print(f"{N} runs {time.time()-t0:.1f}s sigs={len(sigs)}", dict(cl))
print('stats', dict(sorted(stats.items())))
for clause, (i, d) in sorted(ex.items()):
    if only and clause != only: continue
    case = K.generate(prop, seed, i, tier)
    small, n = K.shrink(case, clause, budget_s=15)
    out = K.execute(small)
    print('=' * 100); print(clause, 'run', i, 'shrunk', len(case['ops']), '->', len(small['ops']), 'execs', n)
    print('cfg', json.dumps(small['cfg'])); 
    for op in small['ops']: print('   ', json.dumps(op))
    print('skeleton', K.skeleton(small))
    for l in out.log: print('   |', l)
    for v in out.violations: print('   >>', v[0], str(v[2])[:600])
